#!/venv/bin/python
"""Self-test of the known-finding protocol (no open finding exists today, so the path is exercised on a mutant):
a violation whose signature is listed as open prints KNOWN-FINDING and exits 0; a different violation of the same
property still exits 1; a 'fixed' entry suppresses nothing."""
import json, os, shutil, subprocess, sys, tempfile
from pathlib import Path
VERIF = Path(__file__).resolve().parents[1]
sys.path.insert(0, str(VERIF / "selftest"))
import mutants as M

def run(mutant_names, known):
    tmp = Path(tempfile.mkdtemp(prefix="simfcp-kf-"))
    try:
        M.copy_repo(tmp)
        for prop, name, rel, old, new in M.MUTANTS:
            if name in mutant_names:
                M.apply(tmp, rel, old, new)
        kf = tmp / "kf.json"
        kf.write_text(json.dumps({"findings": known}))
        env = dict(os.environ, VERIF_REPO=str(tmp), VERIF_RUNS="48", VERIF_KNOWN_FINDINGS=str(kf),
                   VERIF_EVIDENCE_DIR=str(tmp / "ev"), VERIF_REPLAY_DIR=str(tmp / "rp"))
        p = subprocess.run([str(VERIF / "bin/check"), "C19"], env=env, capture_output=True, text=True)
        return p.returncode, p.stdout
    finally:
        shutil.rmtree(tmp, ignore_errors=True)

open_missed = {"property": "C19", "status": "open", "signature": "C19:missed_send", "what": "test entry: >= replaced by >"}
fixed_missed = dict(open_missed, status="fixed")
ok = True
rc, out = run(["ge_to_gt"], [open_missed])
a = rc == 0 and "KNOWN-FINDING: property=C19" in out and "VIOLATION" not in out
print("listed open finding -> exit 0 + KNOWN-FINDING line:", a); ok &= a
rc, out = run(["ge_to_gt", "static_frame_cache"], [open_missed])
b = rc == 1 and "VIOLATION property=C19" in out and "KNOWN-FINDING: property=C19" in out
print("a different violation of the same property is still reported:", b); ok &= b
rc, out = run(["ge_to_gt"], [fixed_missed])
c = rc == 1 and "KNOWN-FINDING" not in out
print("a fixed entry suppresses nothing:", c); ok &= c
sys.exit(0 if ok else 1)
