#!/venv/bin/python
"""Sensitivity self-test: apply hand-seeded defects to a scratch copy of the repository,
aim the quick check at it through VERIF_REPO, and demand exit 1 (DESIGN.md section 2).

usage: selftest/mutants.py [property-id ...] [--runs N] [--only name-substring]
Scratch copies live under $TMPDIR and are removed as soon as each check has run.
"""

from __future__ import annotations

import json
import os
import shutil
import subprocess
import sys
import tempfile
import time
from pathlib import Path

VERIF = Path(__file__).resolve().parents[1]
REPO = Path("/repo")

# (property, name, relative file, old text, new text)
MUTANTS = [
    # ---- C17
    ("C17", "revert_rpc_copy_fix", "plugins/fcp_cpp/fcp_cpp/rpc.py", "    fcp = deepcopy(fcp)\n", ""),
    ("C17", "protocol_set_order_in_header", "plugins/fcp_cpp/fcp_cpp/generator.py",
     '                "contents": env.get_template(template_name).render(template_arguments),',
     '                "contents": env.get_template(template_name).render(template_arguments) + ("// protocols: " + ",".join(fcp.get_protocols()) if output_file == "fcp.h" else ""),'),
    ("C17", "date_in_code_line", "plugins/fcp_cpp/fcp_cpp/rpc.h.j2",
     "// Generated using fcp {{version}} on {{date}} by {{user}}@{{hostname}}\n",
     "// Generated using fcp {{version}} on {{date}} by {{user}}@{{hostname}}\n// build day {{date[:10]}}\n"),
    ("C17", "host_in_second_comment", "plugins/fcp_cpp/fcp_cpp/fcp.h.j2",
     "// Generated using fcp {{version}} on {{date}} by {{user}}@{{hostname}}\n",
     "// Generated using fcp {{version}} on {{date}} by {{user}}@{{hostname}}\n// builder: {{hostname}}\n"),
    ("C17", "module_level_counter", "plugins/fcp_cpp/fcp_cpp/generator.py",
     '                "contents": env.get_template(template_name).render(template_arguments),',
     '                "contents": env.get_template(template_name).render(template_arguments) + (f"// build {_bump()}\\n" if output_file == "rpc.h" else ""),'),
    ("C17", "dbc_encoder_cached_across_calls", "plugins/fcp_dbc/fcp_dbc/dbc_writer.py",
     "    encoder = make_encoder(\n        \"packed\", fcp, PackedEncoderContext().with_unroll_arrays(True)\n    )\n",
     "    global _ENC\n    try:\n        encoder = _ENC\n    except NameError:\n        encoder = _ENC = make_encoder(\"packed\", fcp, PackedEncoderContext().with_unroll_arrays(True))\n"),
    ("C17", "listing_order_in_output", "plugins/fcp_can_c/fcp_can_c/can_c_writer.py",
     "                yield file, f.read()\n", "                yield file, f.read() + ('/* ' + ' '.join(os.listdir(self.templates_dir)) + ' */' if file == 'can_frame.h' else '')\n"),
    ("C17", "enum_iteration_through_set", "plugins/fcp_can_c/fcp_can_c/can_c_writer.py",
     "        values = {v.name: v.value for v in enum.enumeration}\n", "        values = {n: dict((v.name, v.value) for v in enum.enumeration)[n] for n in set(v.name for v in enum.enumeration)}\n"),
    ("C17", "verifier_marks_tree", "src/fcp/verifier.py",
     "        for category in self.categories:\n            self.run_checks(category, fcp).attempt()",
     "        for category in self.categories:\n            self.run_checks(category, fcp).attempt()\n        for s in fcp.structs:\n            for f in s.fields:\n                if f.unit is None:\n                    f.unit = ''"),
    # ---- C10
    ("C10", "drop_attempt_after_verify", "src/fcp/codegen.py",
     "        self.verifier.verify(fcp).attempt()\n", "        self.verifier.verify(fcp)\n"),
    ("C10", "gen_before_verify", "src/fcp/codegen.py",
     "        self.verifier.verify(fcp).attempt()\n\n        templates = self._get_templates(template_dir)\n        skels = self._get_skels(skel_dir)\n\n        generator.gen(fcp, templates, skels, output_path)\n",
     "        templates = self._get_templates(template_dir)\n        skels = self._get_skels(skel_dir)\n\n        generator.gen(fcp, templates, skels, output_path)\n        self.verifier.verify(fcp).attempt()\n"),
    ("C10", "skip_register_checks", "src/fcp/codegen.py",
     "        generator.register_checks(self.verifier)\n", ""),
    ("C10", "catch_removed_from_generate", "src/fcp/codegen.py",
     "    @catch\n    def generate(\n        self,\n        generator_name: str,", "    def generate(\n        self,\n        generator_name: str,"),
    ("C10", "handle_file_writes_underscore_name", "src/fcp/codegen.py",
     "    path.parent.mkdir(parents=True, exist_ok=True)\n    path.write_text(", "    path.parent.mkdir(parents=True, exist_ok=True)\n    path = path.parent / ('_' + path.name)\n    path.write_text("),
    ("C10", "revert_mkdir_parents_fix", "src/fcp/codegen.py",
     "    path.parent.mkdir(parents=True, exist_ok=True)\n", "    path.parent.mkdir(exist_ok=True)\n"),
    ("C10", "backup_of_overwritten_files", "src/fcp/codegen.py",
     "    path.parent.mkdir(parents=True, exist_ok=True)\n", "    path.parent.mkdir(parents=True, exist_ok=True)\n    if path.exists():\n        path.with_name(path.name + '.bak').write_bytes(path.read_bytes())\n"),
    ("C10", "can_c_clears_dir_when_registering_checks",
     ["src/fcp/codegen.py", "plugins/fcp_can_c/fcp_can_c/generator.py"],
     ["        generator.register_checks(self.verifier)\n",
      "        @register(verifier, \"impl\")  # type: ignore\n        def check_impl_valid_type("],
     ["        generator.output_path = pathlib.Path(output_path)\n        generator.register_checks(self.verifier)\n",
      "        _d = str(getattr(self, 'output_path', ''))\n        if _d and os.path.isdir(_d):\n            for _f in os.listdir(_d):\n                if _f.endswith('.h') or _f.endswith('.c'):\n                    os.remove(os.path.join(_d, _f))\n\n        @register(verifier, \"impl\")  # type: ignore\n        def check_impl_valid_type("]),
    ("C10", "verify_only_first_category_error_lost", "src/fcp/verifier.py",
     "        for category in self.categories:\n            self.run_checks(category, fcp).attempt()",
     "        for category in self.categories:\n            r = self.run_checks(category, fcp)\n            if category != 'device':\n                r.attempt()"),
    ("C10", "makedirs_before_verify", "src/fcp/codegen.py",
     "        generator.register_checks(self.verifier)\n", "        generator.register_checks(self.verifier)\n        os.makedirs(output_path, exist_ok=True)\n"),
    ("C10", "trailing_newline_appended", "src/fcp/codegen.py",
     "    path.write_text(str(result.get(\"contents\")))", "    path.write_text(str(result.get(\"contents\")).rstrip(\"\\n\") + \"\\n\")"),
    ("C10", "reused_manager_verifies_once", "src/fcp/codegen.py",
     "        self.verifier.verify(fcp).attempt()\n", "        if not getattr(self, '_verified', False):\n            self.verifier.verify(fcp).attempt()\n            self._verified = True\n"),
    # ---- C11
    ("C11", "revert_eof_catch", "src/fcp/parser.py",
     "    try:\n        fcp_ast = fcp_parser.parse(source)\n    except UnexpectedInput as e:\n        return _lark_error(logger, filename, source, e)",
     "    from lark import UnexpectedCharacters\n    try:\n        fcp_ast = fcp_parser.parse(source)\n    except UnexpectedCharacters as e:\n        return _lark_error(logger, filename, source, e)"),
    ("C11", "revert_visit_error_catch_root", "src/fcp/parser.py",
     "        ).transform(fcp_ast)\n    except VisitError as e:\n        return _visit_error(filename, e)\n    except RecursionError:",
     "        ).transform(fcp_ast)\n    except ZeroDivisionError as e:\n        return _visit_error(filename, e)\n    except RecursionError:"),
    ("C11", "revert_recursion_catch", "src/fcp/parser.py",
     "        return _visit_error(filename, e)\n    except RecursionError:\n        return error(f\"{filename.name} is nested too deeply\")\n\n    return Ok(fcp.attempt())",
     "        return _visit_error(filename, e)\n    except ZeroDivisionError:\n        return error(f\"{filename.name} is nested too deeply\")\n\n    return Ok(fcp.attempt())"),
    ("C11", "eof_line_minus_1", "src/fcp/parser.py",
     '    line = e.line if e.line > 0 else len(source.split("\\n"))', "    line = e.line"),
    ("C11", "log_node_off_by_one", "src/fcp/error.py",
     "            lines[node.meta.line - 1],", "            lines[node.meta.line],"),
    ("C11", "sources_by_basename_only", "src/fcp/error.py",
     "        if filename not in self.sources:\n            filename = Path(filename).name",
     "        filename = Path(filename).name"),
    ("C11", "shared_logger_sources_never_refreshed", "src/fcp/error.py",
     "        self.sources[name] = source\n", "        self.sources.setdefault(name, source)\n"),
    # ---- C20
    ("C20", "revert_merge_fix", "src/fcp/specs/v2.py",
     "        self.services += fcp.services\n        self.devices += fcp.devices\n", ""),
    ("C20", "merge_drops_enums", "src/fcp/specs/v2.py",
     "        self.enums += fcp.enums\n", "        self.enums += [e for e in fcp.enums if not self.structs]\n"),
    ("C20", "resolve_against_cwd", "src/fcp/parser.py",
     '        filename = self.path / (".".join(tree.children).replace(".", "/") + ".fcp")',
     '        filename = pathlib.Path(".".join(tree.children).replace(".", "/") + ".fcp")'),
    ("C20", "resolve_against_root_dir", "src/fcp/parser.py",
     "                pathlib.Path(filename).resolve(),\n                self.parser_context,",
     "                pathlib.Path(filename.name).resolve(),\n                self.parser_context,"),
    ("C20", "nested_module_dir_not_propagated", "src/fcp/parser.py",
     "        self.path = self.filename.parent\n", "        self.path = self.filename.parent if not parser_context.modules else pathlib.Path(next(iter(parser_context.modules.values())) and getattr(parser_context, 'rootdir', self.filename.parent))\n        parser_context.rootdir = getattr(parser_context, 'rootdir', self.path)\n"),
    ("C20", "dots_not_translated_beyond_first", "src/fcp/parser.py",
     '(".".join(tree.children).replace(".", "/") + ".fcp")', '(".".join(tree.children).replace(".", "/", 1) + ".fcp")'),
    ("C20", "missing_file_message_without_name", "src/fcp/parser.py",
     '            return error(f"File not found: {pathlib.Path(e.filename).name}")', '            return error("File not found")'),
    ("C20", "nested_import_error_swallowed", "src/fcp/parser.py",
     "        self.fcp.merge(\n            fcp.map_err(", "        if fcp.is_err() and len(self.parser_context.modules) > 2:\n            return Ok(())\n        self.fcp.merge(\n            fcp.map_err("),
    ("C20", "duplicate_merge_of_grandchildren", "src/fcp/specs/v2.py",
     "        self.impls += fcp.impls\n", "        self.impls += fcp.impls\n        self.impls += [i for i in fcp.impls if i.protocol != 'default' and len(fcp.services) > 0]\n"),
    # ---- C04
    ("C04", "revert_enum_width_fix", "src/fcp/encoding.py",
     "            return int(fcp.get_enum(type.name).unwrap().get_packed_size())",
     "            return int(2 ** ceil(log2(fcp.get_enum(type.name).unwrap().get_packed_size())))"),
    ("C04", "revert_enum_bit_length_fix", "src/fcp/specs/enum.py",
     "            return int(m).bit_length()\n", "            import math\n            return int(math.log2(m) + 1)\n"),
    ("C04", "drop_bitstart_reset", "src/fcp/encoding.py",
     "        self.encoding = []\n        self.bitstart = 0\n\n        self._generate(",
     "        self.encoding = []\n\n        self._generate("),
    ("C04", "drop_encoding_reset", "src/fcp/encoding.py",
     "        self.encoding = []\n        self.bitstart = 0\n\n        self._generate(",
     "        self.bitstart = 0\n\n        self._generate("),
    ("C04", "encoding_cleared_in_place", "src/fcp/encoding.py",
     "        self.encoding = []\n        self.bitstart = 0\n\n        self._generate(",
     "        self.encoding.clear()\n        self.bitstart = 0\n\n        self._generate("),
    ("C04", "declaration_order", "src/fcp/encoding.py",
     "for field in sorted(struct.fields, key=lambda field: field.field_id):", "for field in struct.fields:"),
    ("C04", "options_sticky_when_no_block", "src/fcp/encoding.py",
     "        if isinstance(field.type, StructType):\n            self._generate(",
     "        if fields:\n            self._last_fields = fields\n        elif len(self.encoding) == 0:\n            fields = getattr(self, '_last_fields', {})\n        if isinstance(field.type, StructType):\n            self._generate("),
    ("C04", "signal_lookup_cached_per_encoder", "src/fcp/encoding.py",
     "        fields: Dict[str, Any] = (\n            extension.get_signal(field.name)",
     "        self._sigcache = getattr(self, '_sigcache', {})\n        if field.name not in self._sigcache:\n            self._sigcache[field.name] = extension.get_signal(field.name)\n        fields: Dict[str, Any] = (\n            self._sigcache[field.name]"),
    ("C04", "unroll_size_minus_1", "src/fcp/encoding.py",
     "        for i in range(type.size):\n            derived_field = copy(field)", "        for i in range(max(type.size - 1, 1)):\n            derived_field = copy(field)"),
    ("C04", "unroll_mutates_field", "src/fcp/encoding.py",
     "            derived_field = copy(field)\n", "            derived_field = field if type.size == 1 else copy(field)\n"),
    ("C04", "nested_prefix_dropped_at_depth2", "src/fcp/encoding.py",
     '                prefix=prefix + field.name + "::",', '                prefix=(prefix if prefix.count("::") >= 1 else prefix + field.name + "::"),'),
    # ---- C16
    ("C16", "revert_read_bytes_fix", "src/fcp/serde.py",
     "        return [self.read_word(8) for _ in range(bytes)]\n",
     "        byteaddr = self.bitaddr >> 3\n        self.bitaddr += 8 * bytes\n        return self.buffer[byteaddr : byteaddr + bytes]\n"),
    ("C16", "bounds_check_but_floor", "src/fcp/serde.py",
     "        return [self.read_word(8) for _ in range(bytes)]\n",
     "        byteaddr = self.bitaddr >> 3\n        if byteaddr + bytes > len(self.buffer):\n            raise ValueError('buffer overrun')\n        self.bitaddr += 8 * bytes\n        return self.buffer[byteaddr : byteaddr + bytes]\n"),
    ("C16", "get_bit_zero_past_end", "src/fcp/serde.py",
     '            raise ValueError("buffer overrrun")', "            return 0"),
    ("C16", "dyn_array_prealloc", "src/fcp/serde.py",
     "    data = []\n    for i in range(len):\n        data.append(_decode(buffer, fcp, type.underlying_type))",
     "    data = [None] * len\n    for i in range(len):\n        data[i] = _decode(buffer, fcp, type.underlying_type)"),
    ("C16", "str_pad_short_payload", "src/fcp/serde.py",
     '    return bytearray(buffer.read_bytes(len)).decode("ascii")',
     '    avail = max(0, min(len, builtins_len(buffer.buffer) - ((buffer.bitaddr + 7) >> 3)))\n    return bytearray(buffer.read_bytes(avail)).decode("ascii").ljust(min(len, 64))'),
    ("C16", "optional_swallow_overrun", "src/fcp/serde.py",
     "    if is_some:\n        return _decode(buffer, fcp, type.underlying_type)\n    else:",
     "    if is_some:\n        try:\n            return _decode(buffer, fcp, type.underlying_type)\n        except ValueError:\n            return None\n    else:"),
    ("C16", "dyn_array_scan_all_before_fail", "src/fcp/serde.py",
     "    data = []\n    for i in range(len):\n        data.append(_decode(buffer, fcp, type.underlying_type))",
     "    data = []\n    err = None\n    for i in range(len):\n        try:\n            data.append(_decode(buffer, fcp, type.underlying_type))\n        except ValueError as e:\n            err = e\n    if err is not None:\n        raise err"),
    # ---- C19
    ("C19", "ge_to_gt", "plugins/fcp_can_c/templates/can_device_c.jinja",
     "] >= CAN_MSG_PERIOD_", "] > CAN_MSG_PERIOD_"),
    ("C19", "drop_last_send_update", "plugins/fcp_can_c/templates/can_device_c.jinja",
     "        last_send_t[{{ loop.index0 }}] = time;\n", ""),
    ("C19", "last_send_index0", "plugins/fcp_can_c/templates/can_device_c.jinja",
     "(time - last_send_t[{{ loop.index0 }}] >=", "(time - last_send_t[0] >="),
    ("C19", "period_default_0", "plugins/fcp_can_c/fcp_can_c/can_c_writer.py",
     'extension.fields.get("period", -1)', 'extension.fields.get("period", 0)'),
    ("C19", "signed_compare", "plugins/fcp_can_c/templates/can_device_c.jinja",
     "(time - last_send_t[{{ loop.index0 }}] >=", "((int32_t)(time - last_send_t[{{ loop.index0 }}]) >="),
    ("C19", "static_frame_cache", "plugins/fcp_can_c/templates/can_device_c.jinja",
     "        CanFrame frame = can_encode_msg_{{ message.name_snake }}(&dev->{{ message.name_snake }});",
     "        static CanFrame frame; static int have_{{ loop.index0 }} = 0; if (!have_{{ loop.index0 }}) { frame = can_encode_msg_{{ message.name_snake }}(&dev->{{ message.name_snake }}); have_{{ loop.index0 }} = 1; }"),
    ("C19", "last_call_after_return_16bit", "plugins/fcp_can_c/templates/can_device_c.jinja",
     "static uint32_t last_send_t[{{ messages | length }}] = {0};", "static uint16_t last_send_t[{{ messages | length }}] = {0};"),
    ("C19", "shared_statics_across_devices", "plugins/fcp_can_c/templates/can_device_c.jinja",
     "    static uint32_t last_call_t = 0;\n", "    extern uint32_t fcp_last_call_t;\n#define last_call_t fcp_last_call_t\n"),
]


# runs per check when --runs is not given: enough for every mutant below, a fraction of the quick tier
DEFAULT_RUNS = {"C04": "2000", "C10": "300", "C11": "32", "C16": "320", "C17": "200", "C19": "48", "C20": "200"}


def apply(root: Path, rel, old, new) -> None:
    if isinstance(rel, list):
        for r, o, n in zip(rel, old, new):
            apply(root, r, o, n)
        return
    p = root / rel
    s = p.read_text()
    if old not in s:
        raise SystemExit(f"mutant does not apply: {rel}: {old!r}")
    p.write_text(s.replace(old, new, 1))


def copy_repo(dst: Path) -> None:
    for sub in ("src", "plugins", "tests"):
        shutil.copytree(REPO / sub, dst / sub, ignore=shutil.ignore_patterns("__pycache__", "*.pyc", "generated_code"))


def main() -> None:
    args = sys.argv[1:]
    runs = None
    only = None
    props = []
    while args:
        a = args.pop(0)
        if a == "--runs":
            runs = args.pop(0)
        elif a == "--only":
            only = args.pop(0)
        else:
            props.append(a)
    rows = []
    for prop, name, rel, old, new in MUTANTS:
        if props and prop not in props:
            continue
        if only and only not in name:
            continue
        tmp = Path(tempfile.mkdtemp(prefix="simfcp-mutant-"))
        try:
            copy_repo(tmp)
            apply(tmp, rel, old, new)
            if name == "module_level_counter":
                q = tmp / "plugins/fcp_cpp/fcp_cpp/generator.py"
                q.write_text(q.read_text().replace("class ToCpp(", "_N = [0]\n\n\ndef _bump():\n    _N[0] += 1\n    return _N[0]\n\n\nclass ToCpp(", 1))
            if name == "str_pad_short_payload":
                q = tmp / "src/fcp/serde.py"
                q.write_text(q.read_text().replace("import struct\n", "import struct\nbuiltins_len = len\n", 1))
            if name == "shared_statics_across_devices":
                # the shared variable needs one definition: put it in the static parser source
                q = tmp / "plugins/fcp_can_c/templates/can_signal_parser.c"
                q.write_text(q.read_text() + "\nuint32_t fcp_last_call_t = 0;\n")
            env = dict(os.environ, VERIF_REPO=str(tmp), VERIF_EVIDENCE_DIR=str(tmp / "evidence"),
                       VERIF_REPLAY_DIR=str(tmp / "replays"))
            env["VERIF_RUNS"] = runs or DEFAULT_RUNS[prop]
            t0 = time.time()
            p = subprocess.run([str(VERIF / "bin/check"), prop], env=env, capture_output=True, text=True)
            dt = time.time() - t0
            vio = [l for l in p.stdout.splitlines() if l.startswith("VIOLATION")]
            cls = [l.strip() for l in p.stdout.splitlines() if l.strip().startswith("violation class=")]
            ok = p.returncode == 1 and vio
            rp = ""
            if ok:
                # the replay file must reproduce on the mutant (fresh process) and stay quiet on the pristine tree
                path = vio[0].split("replay=", 1)[1].strip()
                r1 = subprocess.run([str(VERIF / "bin/check"), prop, "--replay", path], env=env, capture_output=True, text=True)
                env2 = dict(env)
                env2.pop("VERIF_REPO")
                r2 = subprocess.run([str(VERIF / "bin/check"), prop, "--replay", path], env=env2, capture_output=True, text=True)
                rp = f"replay:mutant={r1.returncode},pristine={r2.returncode}"
                if r1.returncode != 1 or r2.returncode != 0:
                    ok = False
                    rp += " REPLAY-MISMATCH " + r1.stdout[-200:] + r2.stdout[-200:]
            rows.append((prop, name, "CAUGHT" if ok else f"MISSED(exit {p.returncode})", round(dt, 1), rp,
                         cls[0][:160] if cls else p.stdout[-300:].replace("\n", " | ")))
            print(rows[-1], flush=True)
        finally:
            shutil.rmtree(tmp, ignore_errors=True)
    missed = [r for r in rows if not r[2].startswith("CAUGHT")]
    print(json.dumps({"mutants": len(rows), "caught": len(rows) - len(missed), "missed": [r[1] for r in missed]}))
    sys.exit(1 if missed else 0)


if __name__ == "__main__":
    main()
