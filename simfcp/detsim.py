"""detsim — C17: generated artefacts are a deterministic function of the schema.

Every run is a FRESH worker interpreter (simfcp/detworker.py) whose sources of nondeterminism belong to
the simulator: PYTHONHASHSEED, the wall clock / user / host read by fcp_cpp, directory listing order,
and the process history (what was parsed, verified, laid out, encoded or generated before, and whether
a tree object is reused).  Every generate operation is compared with the pristine baseline of the same
(generator, schema): one operation, hash seed 0, no history.
"""

from __future__ import annotations

import json
import os
import subprocess
import sys
import tempfile
from collections import Counter
from concurrent.futures import ThreadPoolExecutor

from .kit import H, VERIF_ROOT, Trace, short, stream, weighted
from .gen import schema as S
from . import parsekit as K

PROPERTY = "C17"
ENGINE = "detsim"
LEVEL = "exploration"
RULE = ("one run = one fresh interpreter with a seeded PYTHONHASHSEED, simulated clock position / user / host, seeded "
        "directory-listing permutation and a seeded history of 5-15 operations (parse text/file, parse a broken text through "
        "the default Logger, verify with plug-in checks, layout on a kept encoder, reflection encode, clock jumps, and the "
        "observed generate(generator, schema, fresh or reused tree)) over a per-batch pool of seeded schemas; every generate "
        "is compared with the pristine baseline (one operation, hash seed 0) of the same generator and schema; evaluations = "
        "generate operations compared; distinct_nontrivial counts distinct (generator, schema, hash-seed class, multiset of "
        "preceding operation kinds, reuse flag) tuples with at least one preceding operation or a non-zero hash seed")
COMPONENTS = {
    "real": ["fcp.parser", "fcp.verifier + plug-in checks", "fcp.encoding", "fcp.serde + fcp.reflection",
             "fcp_dbc / fcp_can_c / fcp_cpp / fcp_nop Generator.generate", "binary reflection (serde.encode of FcpV2.reflection(), what `fcp encode` writes)", "jinja2 / cantools as used by the plug-ins"],
    "stub": ["PYTHONHASHSEED, TZ, LC_ALL, COLUMNS and working directory of the worker interpreter", "process-wide simulated wall clock (datetime.datetime/date, time.time/localtime/strftime...), user (pwd/getpass/os.getlogin/USER) and host (socket/platform/os.uname) installed before the code under test is imported",
             "os.listdir returning a seeded permutation", "scratch output directory for fcp_can_c"],
}
ASSUMPTIONS = [
    "the stamp line removed before comparison is exactly '// Generated using fcp <v> on <date> by <user>@<host>' as a full line",
    "generators are called through Generator.generate; a quarter of the generations additionally go through GeneratorManager into an output directory the process keeps reusing, and what is compared is what is on disk at the returned paths",
    "a generate that raises is an outcome too: it must raise in the baseline as well",
]
TIERS = {
    "quick": {"runs": 800, "chunk": 10, "wall": 100, "chunk_timeout": 400, "selftest": 4, "pool": 14},
    "thorough": {"runs": 8000, "chunk": 20, "wall": 800, "chunk_timeout": 900, "selftest": 8, "pool": 36},
}
EXPECTED_PROBES = {t: ["schema_is_a_module_tree", "generated_through_manager_into_reused_dir", "nonzero_hashseed", "generate_on_reused_tree", "generate_after_generate_same_tree", "cpp_with_services",
                       "multi_protocol_schema", "clock_crossed_midnight", "after_parse_broken", "after_layout",
                       "listing_permuted", "two_generators_same_tree"] for t in TIERS}
GENS = ["dbc", "can_c", "cpp", "nop"]
ARTEFACTS = GENS + ["reflection"]      # reflection = the binary written by `fcp encode`


# ---------------------------------------------------------------------------
# schema pool (a function of the batch seed only)


def gen_pool_schema(rng, i):
    names = K.Names(rng)
    kind = ["general", "dbc", "can_c"][i % 3] if i >= 2 else "general"
    if kind == "general":
        vis = K.new_vis()
        decls = K.gen_decls(rng, names, vis, rng.randint(4, 8))
        # make sure there are several protocols and a service, so ordering has something to bite on
        structs = [d["name"] for d in decls if d["kind"] == "struct"]
        if not structs:
            decls += K.gen_decls(rng, names, vis, 1, allow=())
            structs = [d["name"] for d in decls if d["kind"] == "struct"]
        protos = rng.sample(["can", "lin", "eth", "uart", "spi"], rng.randint(2, 4))
        if rng.random() < 0.3:
            # protocol names that differ only in case / separator style (can, Can; can_fd, canFd): distinct protocols
            protos += rng.choice([["Can"], ["canFd", "can_fd"], ["Lin", "LIN"]])
        for j, proto in enumerate(protos):
            s = rng.choice(structs)
            if (s, proto) not in vis["impls"]:
                vis["impls"].append((s, proto))
                decls.append({"kind": "impl", "protocol": proto, "type": s, "name": s,
                              "fields": [["id", 300 + 7 * j + i]], "signals": []})
        if rng.random() < 0.25:
            # a user enum that happens to carry the name the C++ RPC layer generates for itself
            svc = [d for d in decls if d["kind"] == "service"]
            nm = rng.choice(["ServiceId"] + [d["name"] + "MethodId" for d in svc])
            if not any(d.get("name") == nm for d in decls):
                decls.insert(0, {"kind": "enum", "name": nm, "values": [["Nothing", 0], ["Something", 1]]})
                if structs and rng.random() < 0.7:
                    # ... and is used as a field type of a CAN message
                    for d in decls:
                        if d["kind"] == "struct" and d["name"] == structs[0]:
                            d["fields"].append({"name": "kind", "id": 60, "type": ["enum", nm]})
        if rng.random() < 0.75 and not any(d["kind"] == "service" for d in decls):
            decls.append({"kind": "service", "name": names.service(), "id": rng.randint(1, 100),
                          "methods": [{"name": f"do_{rng.choice(S.WORDS)}", "id": k, "input": rng.choice(structs),
                                       "output": rng.choice(structs)} for k in range(rng.randint(1, 3))]})
        return decls
    from . import gensim
    return gensim.shape_for(rng, kind)


def can_c_enum_schema(rng):
    """fcp_can_c shape with enum fields (Generator.generate handles them; only its verifier check does not)."""
    names = K.Names(rng)
    decls = []
    enames = []
    for _ in range(rng.randint(1, 2)):
        d = K.gen_decls(rng, names, K.new_vis(), 1, allow=("enum",))
        d = [x for x in d if x["kind"] == "enum"]
        if not d:
            d = [{"kind": "enum", "name": names.enum(), "values": [["Off", 0], ["On", rng.randint(1, 30)]]}]
        decls += d
        enames.append(d[0]["name"])
    ids = rng.sample(range(1, 2000), 4)
    for si in range(rng.randint(1, 3)):
        fields = [{"name": w, "id": fi, "type": (["enum", rng.choice(enames)] if rng.random() < 0.5 else [rng.choice("ui"), rng.choice([8, 16])])}
                  for fi, w in enumerate(rng.sample(S.WORDS, rng.randint(1, 3)))]
        sname = names.struct()
        decls.append({"kind": "struct", "name": sname, "fields": fields})
        decls.append({"kind": "impl", "protocol": "can", "type": sname, "name": sname,
                      "fields": [["id", ids[si]], ["device", rng.choice(["ecu", "bms"])]], "signals": []})
    return decls


def edited_version(rng, decls, same_size=None):
    """The same schema after an edit: every name kept, definitions changed (enum ranges, integer widths, ids).
    What a long-lived process sees when the user changes the schema and generates again."""
    import copy
    d = copy.deepcopy(decls)
    coin = rng.random() < 0.5
    if coin if same_size is None else same_size:
        # an edit that keeps every generated file the same SIZE: ids bumped within the same number of digits, one field
        # renamed to another word of the same length
        for x in d:
            if x["kind"] == "impl":
                x["fields"] = [[k, (v + 1 if k == "id" and len(str(v + 1)) == len(str(v)) else v)] for k, v in x["fields"]]
            elif x["kind"] == "struct":
                used = {f["name"] for f in x["fields"]}
                for f in x["fields"]:
                    alt = [w for w in S.WORDS if len(w) == len(f["name"]) and w not in used]
                    if alt:
                        f["name"] = rng.choice(alt)
                        break
        return d
    for x in d:
        if x["kind"] == "enum":
            scale = rng.choice([3, 9, 40])
            x["values"] = [[n, v * scale + 1] for n, v in x["values"]]
        elif x["kind"] == "struct":
            for f in x["fields"]:
                if f["type"][0] in ("u", "i") and f["type"][1] in (8, 16):
                    f["type"] = [f["type"][0], 24 - f["type"][1]]
        elif x["kind"] == "impl":
            x["fields"] = [[k, (v + 1 if k == "id" else v)] for k, v in x["fields"]]
    return d


def add_range_and_unit(rng, decls):
    """One numeric field with a range AND an identifier-like unit: with the paren-less rendering styles this gives
    "| range(0.0, 9.5) | unit C," (a parameter without parentheses after one that was closed)."""
    for d in decls:
        if d["kind"] == "struct":
            for f in d["fields"]:
                if f["type"][0] in ("u", "i", "f32", "f64"):
                    f["unit"] = rng.choice(["C", "V", "rpm", "Nm"])
                    f["range"] = [0.0, rng.randint(1, 100) + 0.5]
                    return


CXX_KEYWORDS = ["auto", "switch", "class", "new", "delete", "register", "template", "this", "operator", "union", "namespace", "int"]
EXT_FIELDS = ["receivers", "senders", "listeners", "tags", "nodes", "groups", "gateways", "consumers"]


def add_keywords_and_lists(rng, decls):
    """Names and values no grammar rule forbids: struct fields named like C/C++ keywords, and binding-level extension
    fields (unknown to every shipped generator today) whose value is a LIST of several identifiers or strings."""
    for d in decls:
        if d["kind"] == "struct" and rng.random() < 0.15:
            f = rng.choice(d["fields"])
            kw = rng.choice(CXX_KEYWORDS)
            if not any(x["name"] == kw for x in d["fields"]):
                f["name"] = kw
        if d["kind"] == "impl" and rng.random() < 0.3 and not d.get("signals"):
            vals = rng.sample(["ecu", "bms", "inv", "dash", "gw", "logger", "charger"], rng.randint(2, 5))
            d["fields"].append([rng.choice(EXT_FIELDS), [{"ident": v} for v in vals] if rng.random() < 0.5 else list(vals)])


def mux_can_c_schema(rng):
    """fcp_can_c shape with two multiplexed signals switched by two different selector signals in one message."""
    names = K.Names(rng)
    sname = names.struct()
    w = rng.sample(S.WORDS, 5)
    fields = [{"name": w[i], "id": i, "type": ["u", 8]} for i in range(5)]
    return [{"kind": "struct", "name": sname, "fields": fields},
            {"kind": "impl", "protocol": "can", "type": sname, "name": sname, "fields": [["id", rng.randint(1, 2000)], ["device", "ecu"]],
             "signals": [{"name": w[2], "fields": [["mux_signal", w[0]], ["mux_count", rng.randint(2, 6)]]},
                         {"name": w[3], "fields": [["mux_signal", w[1]], ["mux_count", rng.randint(2, 6)]]}]}]


def flatten_collision_schema(rng):
    """A nested field a::b next to a sibling literally called a_b (both flatten to a_b in DBC/C signal names)."""
    names = K.Names(rng)
    inner, outer = names.struct(), names.struct()
    a, b = rng.sample(S.WORDS, 2)
    return [{"kind": "struct", "name": inner, "fields": [{"name": b, "id": 0, "type": ["u", 8]}]},
            {"kind": "struct", "name": outer, "fields": [{"name": a, "id": 0, "type": ["struct", inner]},
                                                          {"name": f"{a}_{b}", "id": 1, "type": ["u", 8]}]},
            {"kind": "impl", "protocol": "can", "type": outer, "name": outer, "fields": [["id", rng.randint(1, 2000)], ["device", "ecu"]], "signals": []}]


def module_tree_schema(rng):
    """A schema split into module files (FILES: json), parsed from the same scratch location by every operation of a process."""
    root = K.gen_tree(rng, max_depth=2, same_basename_p=0.0)
    return "FILES:" + json.dumps(K.tree_files(root, rng.randrange(8)), sort_keys=True)


_PAIRS = {}      # id(pool) -> indices k such that s<k+1> is the edited version of s<k>


def make_pool(seed, n):
    pool = {}
    pairs = _PAIRS.setdefault(id(pool), [])
    i = 0
    while len(pool) < n:
        rng = stream(H(seed, "C17", "pool", i), "schema")
        special = {6: mux_can_c_schema, 9: flatten_collision_schema}.get(i)
        if special is not None or i in (3, 11):
            pool[f"s{len(pool)}"] = S.render(special(rng), rng.randrange(8)) if special is not None else module_tree_schema(rng)
            i += 1
            continue
        if i % 5 == 4:
            decls = can_c_enum_schema(rng)
        else:
            decls = gen_pool_schema(rng, i)
        style = rng.randrange(8)
        if rng.random() < 0.8:
            add_range_and_unit(rng, decls)
        add_keywords_and_lists(stream(H(seed, "C17", "pool-extra", i), "extra"), decls)
        pool[f"s{len(pool)}"] = S.render(decls, style)
        if (i % 2 == 0 or i % 5 == 4) and len(pool) < n:
            # followed by its edited version (same names, other definitions); the CAN shapes with enums always get the
            # edit that moves the enums' value ranges (their packed widths change)
            pairs.append(len(pool) - 1)
            pool[f"s{len(pool)}"] = S.render(edited_version(rng, decls, False if i % 5 == 4 else None), style)
        i += 1
    return pool


_POOL = {}


def pool_for(seed, tier):
    key = (seed, tier)
    if key not in _POOL:
        _POOL[key] = make_pool(seed, TIERS[tier]["pool"])
    return _POOL[key]


# ---------------------------------------------------------------------------
# worker interpreters


def run_worker(workload, hashseed):
    env = dict(os.environ)
    env["PYTHONHASHSEED"] = str(hashseed)
    env["PYTHONPATH"] = str(VERIF_ROOT)
    env["PYTHONDONTWRITEBYTECODE"] = "1"
    env["TZ"] = workload.get("tz", "UTC")
    env["LC_ALL"] = workload.get("lc_all", "C")
    env["COLUMNS"] = str(workload.get("columns", 80))
    # the worker may start in another directory (PYTHONPATH is absolute): relative paths must not leak into artefacts
    cwd = {"verif": str(VERIF_ROOT), "root": "/", "tmp": tempfile.gettempdir()}.get(workload.get("cwd", "verif"), str(VERIF_ROOT))
    p = subprocess.run([sys.executable] + (["-O"] if workload.get("optimize") else []) + ["-c", "from simfcp.detworker import main; main()"], input=json.dumps(workload),
                       capture_output=True, text=True, env=env, cwd=cwd, timeout=300)
    lines = [l for l in p.stdout.splitlines() if l.startswith("RESULT ")]
    if p.returncode != 0 or not lines:
        raise RuntimeError(f"worker failed ({p.returncode}): {p.stderr[-1200:]}")
    return json.loads(lines[-1][7:])


_BASE = {}


def baseline(pool, g, sid, bodies=False, disk=False, origin="string"):
    key = (g, sid, pool[sid], disk, origin)
    if key not in _BASE or (bodies and "bodies" not in _BASE[key]):
        # pristine run: one generation; for a tree that was parsed from a FILE the baseline parses the same relative path
        ops = [["generate", g, sid, False, disk]] if origin == "string" else [["parse_file", sid], ["generate", g, sid, True, disk]]
        w = {"schemas": {sid: pool[sid]}, "ops": ops, "clock0": 1_700_000_000,
             "user": "simuser", "host": "simhost", "listperm": 0, "keep_bodies": bodies}
        _BASE[key] = run_worker(w, 0)["obs"][-1]
    return _BASE[key]


def prepare(seed, tier):
    """Pristine baselines for the whole pool, computed before the pool forks (children inherit them)."""
    pool = pool_for(seed, tier)
    jobs = [(g, sid, False) for sid in sorted(pool) for g in ARTEFACTS] + [(g, sid, True) for sid in sorted(pool) for g in GENS]
    with ThreadPoolExecutor(max_workers=min(16, os.cpu_count() or 2)) as ex:
        list(ex.map(lambda j: baseline(pool, j[0], j[1], disk=j[2]), jobs))


# ---------------------------------------------------------------------------


def gen_run(rng, pool):
    sids = rng.sample(sorted(pool), min(len(pool), weighted(rng, [(1, 4), (2, 4), (3, 2)])))
    if rng.random() < 0.35:
        # a schema together with its edited version (same type names, other definitions), when the pool has the pair
        k = rng.randrange(len(pool) - 1)
        if _PAIRS.get(id(pool)) and rng.random() < 0.8:
            k = rng.choice(_PAIRS[id(pool)])
        sids = [f"s{k}", f"s{k + 1}"]
    hashseed = weighted(rng, [(0, 2), (rng.randint(1, 4294967295), 8)])
    clock0 = weighted(rng, [(1_700_000_000, 2), (rng.randint(0, 2_000_000_000), 5),
                            (1_700_000_000 - (1_700_000_000 % 86400) + 86399, 2)])     # one second before midnight
    cfg = {"hashseed": hashseed, "clock0": clock0,
           "user": rng.choice(["simuser", "root", "ci-runner", "j.doe", "svc-build-pipeline-automation-account-0042"]),
           "host": rng.choice(["simhost", "build-17.example.org", "x",
                               "runner-7f9c4d5b6e-xk2lp.ci-namespace.svc.cluster.local.example-corporation.internal"]),
           "listperm": rng.choice([0, rng.randint(1, 1 << 30)]),
           "tz": rng.choice(["UTC", "UTC", "Asia/Tokyo", "America/Los_Angeles", "Pacific/Kiritimati"]),
           "lc_all": rng.choice(["C", "C", "C.UTF-8", "POSIX"]), "columns": rng.choice([80, 20, 300]),
           "cwd": rng.choice(["verif", "verif", "root", "tmp"])}
    knobs = stream(H(hashseed, clock0, "c17-knobs"), "knobs")
    # the process keeps ONE Generator object per plug-in and calls it for every generation (instead of a new one per call);
    # the worker interpreter runs with -O
    cfg["keep_generators"] = knobs.random() < 0.35
    cfg["optimize"] = knobs.random() < 0.08
    n = rng.randint(5, 15)
    ops = []
    swarm = {k: rng.random() < 0.7 for k in ("parse_text", "parse_file", "parse_broken", "verify", "layout", "reflection", "clock")}
    for i in range(n):
        sid = rng.choice(sids)
        k = weighted(rng, [("generate", 5)] + [(x, 1.0 if swarm[x] else 0.05) for x in sorted(swarm)])
        if k == "generate":
            ops.append(["generate", rng.choice(ARTEFACTS), sid, rng.random() < 0.6, rng.random() < 0.25])
        elif k == "clock":
            ops.append(["clock", rng.choice([1, 2, 59, 3600, 86400, 31_536_000])])
        elif k == "parse_broken":
            ops.append(["parse_broken", sid, rng.randrange(1 << 16)])
        elif k == "verify":
            ops.append(["verify", sid, rng.sample(GENS, rng.randint(0, 2))])
        elif k == "layout":
            ops.append(["layout", sid, rng.random() < 0.5])
        else:
            ops.append([k, sid])
    if not any(o[0] == "generate" for o in ops):
        ops.append(["generate", rng.choice(GENS), rng.choice(sids), rng.random() < 0.6])
    return cfg, sids, ops


def compare(base, ob):
    """Returns (class, detail, message) or None."""
    if ("error" in base) != ("error" in ob):
        return ("generation_outcome_differs", "raises",
                f"baseline {'raises ' + base['error'] if 'error' in base else 'generates'} but this run "
                f"{'raises ' + ob['error'] if 'error' in ob else 'generates'}")
    if "error" in base:
        if base["error"].split(":")[0] != ob["error"].split(":")[0]:
            return ("generation_outcome_differs", "exception_type", f"{base['error']} vs {ob['error']}")
        return None
    bm, om = base["map"], ob["map"]
    if sorted(bm) != sorted(om):
        return ("file_set_differs", "paths", f"files only in baseline {sorted(set(bm) - set(om))[:5]}, only in this run "
                                             f"{sorted(set(om) - set(bm))[:5]}")
    diff = sorted(k for k in bm if bm[k] != om[k])
    if diff:
        return ("content_differs", "bytes", f"{len(diff)} file(s) differ from the pristine baseline: {diff[:6]}")
    return None


def judge_run(pool, cfg, sids, ops, probes=None, tr=None, distinct=None):
    probes = probes if probes is not None else Counter()
    w = {"schemas": {s: pool[s] for s in sids}, "ops": ops, "clock0": cfg["clock0"], "user": cfg["user"],
         "host": cfg["host"], "listperm": cfg["listperm"], "tz": cfg.get("tz", "UTC"),
         "lc_all": cfg.get("lc_all", "C"), "columns": cfg.get("columns", 80), "cwd": cfg.get("cwd", "verif"),
         "keep_generators": bool(cfg.get("keep_generators")), "optimize": bool(cfg.get("optimize"))}
    if w["keep_generators"]:
        probes["generator_objects_kept"] += 1
    if w["optimize"]:
        probes["worker_under_python_O"] += 1
    out = run_worker(w, cfg["hashseed"])
    viol = []
    evals = 0
    gen_seen = {}
    for ob in out["obs"]:
        oi = ob["op"]
        g, sid = ob["generator"], ob["schema"]
        base = baseline(pool, g, sid, disk=bool(ob.get("disk")), origin=ob.get("origin", "string"))
        evals += 1
        if ob.get("disk"):
            probes["generated_through_manager_into_reused_dir"] += 1
        before = Counter(o[0] for o in ops[:oi])
        if cfg["hashseed"]:
            probes["nonzero_hashseed"] += 1
        if ob["reused"]:
            probes["generate_on_reused_tree"] += 1
            if sid in gen_seen:
                probes["generate_after_generate_same_tree"] += 1
                if gen_seen[sid] != {g}:
                    probes["two_generators_same_tree"] += 1
        gen_seen.setdefault(sid, set()).add(g)
        if pool[sid].startswith("FILES:"):
            probes["schema_is_a_module_tree"] += 1
        if g == "cpp" and "service " in pool[sid]:
            probes["cpp_with_services"] += 1
        if len(set(l.split()[1] for l in pool[sid].split("\n") if l.startswith("impl "))) >= 2:
            probes["multi_protocol_schema"] += 1
        if before.get("parse_broken"):
            probes["after_parse_broken"] += 1
        if before.get("layout"):
            probes["after_layout"] += 1
        if cfg["listperm"]:
            probes["listing_permuted"] += 1
        t = cfg["clock0"] + sum(o[1] for o in ops[:oi] if o[0] == "clock")
        if t // 86400 != cfg["clock0"] // 86400:
            probes["clock_crossed_midnight"] += 1
        if distinct is not None and (oi > 0 or cfg["hashseed"]):
            distinct.add(short([g, sid, "0" if not cfg["hashseed"] else "odd" if cfg["hashseed"] % 2 else "even",
                                sorted(before.items()), ob["reused"]]))
        c = compare(base, ob)
        if tr is not None:
            tr.add("generate", op=oi, g=g, sid=sid, reused=ob["reused"], same=c is None,
                   out=ob.get("map") or ob.get("error", "").split(":")[0])
        if c is not None:
            viol.append((c[0], f"{g}:{'reused_tree' if ob['reused'] else 'fresh_tree'}",
                         f"op {oi} generate {g} {sid} ({'reused' if ob['reused'] else 'fresh'} tree, hash seed {cfg['hashseed']}): {c[2]}", oi))
    if tr is not None:
        tr.add("log", log=[[a, b, c.split(":")[0]] for a, b, c in out["log"]])
    return viol, evals


def mk(v, pool, cfg, sids, ops, run=None):
    cls, detail, msg, oi = v
    return {"class": cls, "signature": f"C17:{cls}:{detail}", "message": msg, "run": run,
            "workload": {"schemas": {s: pool[s] for s in sids}, "cfg": cfg, "ops": ops[:oi + 1]}}


def run_one(seed: int, index: int, tier: str) -> dict:
    run_seed = H(seed, PROPERTY, index)
    tr = Trace()
    probes = Counter()
    distinct = set()
    res = {"index": index, "violations": [], "evals": 0, "harness_errors": []}
    pool = pool_for(seed, tier)
    cfg, sids, ops = gen_run(stream(run_seed, "ops"), pool)
    try:
        viol, evals = judge_run(pool, cfg, sids, ops, probes, tr, distinct)
    except (RuntimeError, subprocess.TimeoutExpired) as e:
        res["harness_errors"].append(f"run {index}: {e}")
        res["digest"] = "x"
        return res
    res["evals"] = evals
    for v in viol[:3]:
        res["violations"].append(mk(v, pool, cfg, sids, ops, index))
    res["digest"] = tr.digest()
    res["probes"] = probes
    res["faults"] = Counter({"hashseed_nonzero": 1 if cfg["hashseed"] else 0, "clock_jump": sum(1 for o in ops if o[0] == "clock"),
                             "listing_permuted": 1 if cfg["listperm"] else 0, "tree_reuse": sum(1 for o in ops if o[0] == "generate" and o[3]),
                             "ambient_user_host_changed": 1 if (cfg["user"], cfg["host"]) != ("simuser", "simhost") else 0})
    res["distinct"] = distinct
    res["sample"] = {"cfg": cfg, "ops": ops, "schema": pool[sids[0]]} if index % 60 == 0 else None
    return res


# ---------------------------------------------------------------------------


def check_workload(w):
    pool = w["schemas"]
    cfg = w["cfg"]
    viol, _ = judge_run(pool, cfg, sorted(pool), w["ops"])
    return [mk(v, pool, cfg, sorted(pool), w["ops"]) for v in viol]


def replay(workload):
    return check_workload(workload)


def minimise(v):
    """Drop preceding operations, then move hash seed / clock / user / host / listing order back to the pristine
    values while the same disagreement persists, so that the replay names the ingredient that matters."""
    from .kit.ddmin import ddmin
    w = v["workload"]
    key = v["signature"]
    last = w["ops"][-1]

    def fails(ops, cfg):
        try:
            return any(x["signature"] == key for x in check_workload(dict(w, ops=ops, cfg=cfg)))
        except Exception:
            return False

    cfg = dict(w["cfg"])
    head = list(w["ops"][:-1])
    if head:
        if fails([last], cfg):
            head = []
        else:
            head = ddmin(head, lambda h: fails(h + [last], cfg), 24)
            if len(head) == 1 and fails([last], cfg):
                head = []
    ops = head + [last]
    for k, pristine in (("hashseed", 0), ("clock0", 1_700_000_000), ("user", "simuser"), ("host", "simhost"), ("listperm", 0), ("tz", "UTC"),
                        ("lc_all", "C"), ("columns", 80), ("cwd", "verif"), ("keep_generators", False), ("optimize", False)):
        if cfg.get(k, pristine) != pristine:
            c2 = dict(cfg, **{k: pristine})
            if fails(ops, c2):
                cfg = c2
    if not fails(ops, cfg):
        return v
    out = dict(v, workload=dict(w, ops=ops, cfg=cfg), minimised=True)
    vs = [x for x in check_workload(out["workload"]) if x["signature"] == key]
    if vs:
        needs = [k for k, p in (("hashseed", 0), ("clock0", 1_700_000_000), ("user", "simuser"), ("host", "simhost"), ("listperm", 0), ("tz", "UTC"), ("lc_all", "C"), ("columns", 80), ("cwd", "verif"), ("keep_generators", False), ("optimize", False)) if cfg.get(k, p) != p]
        out["message"] = vs[0]["message"] + f" [minimised: {len(ops)} op(s); non-pristine ingredients still needed: {needs or 'none (history / tree reuse only)'}]"
    return out
