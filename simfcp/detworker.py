"""Worker interpreter of detsim (C17): executes one operation history in THIS process and reports,
for every generate operation, {relative path -> sha-256 of the contents with the stamp line removed}.

Started as a fresh interpreter with a PYTHONHASHSEED chosen by the simulator; the wall clock, user,
host name and directory listing order seen by the code under test are the simulator's.
stdin: JSON workload; stdout: one line 'RESULT <json>'.
"""

from __future__ import annotations

import hashlib
import io
import contextlib
import json
import os
import random
import re
import shutil
import sys
import tempfile
from pathlib import Path

# the documented stamp: one full comment line "// Generated using fcp <version> on <date> by <user>@<host>"
# (the spelling of <date> is not fixed by the documentation; everything else on the line is)
STAMP = re.compile(r"^// Generated using fcp \S+ on \S.*? by [^\s@]+@\S+$")


def normalise(contents: str) -> str:
    return "\n".join(l for l in contents.split("\n") if not STAMP.match(l))


def main() -> None:
    w = json.loads(sys.stdin.read())
    from simfcp.kit import setup_repo_path, scratch_base
    from simfcp.kit.ambient import SimClock, install_global_ambient

    # --- ambient seams: installed BEFORE the code under test is imported, process-wide
    clock = SimClock(w.get("clock0", 1_700_000_000))
    install_global_ambient(clock, w.get("user", "simuser"), w.get("host", "simhost"))
    setup_repo_path()
    real_listdir = os.listdir
    lrng = random.Random(w.get("listperm", 0))

    def listdir(path="."):
        out = sorted(real_listdir(path))
        if w.get("listperm"):
            lrng.shuffle(out)
        return out

    os.listdir = listdir

    import importlib
    import fcp.parser as P
    import fcp.error as E
    import fcp.verifier as V
    import fcp.encoding as ENC
    import fcp.serde as SER
    gens = {g: importlib.import_module("fcp_" + g) for g in ("dbc", "can_c", "cpp", "nop")}
    kept_generators = {}

    def generator_object(g):
        """A new Generator per call, or (knob) the one object this process keeps per plug-in."""
        if not w.get("keep_generators"):
            return gens[g].Generator()
        if g not in kept_generators:
            kept_generators[g] = gens[g].Generator()
        return kept_generators[g]

    schemas = w["schemas"]

    def parse_schema(sid, logger=None):
        """Pool schemas are either one text or 'FILES:{json}' (a module tree, written once per process to a fixed place)."""
        text = schemas[sid]
        if not text.startswith("FILES:"):
            return P.get_fcp_from_string(text, logger) if logger is not None else P.get_fcp_from_string(text)
        d = Path(f"tree_{sid}")
        for rel, body in json.loads(text[6:]).items():
            fp = d / rel
            fp.parent.mkdir(parents=True, exist_ok=True)
            if not fp.is_file() or fp.read_text() != body:
                fp.write_text(body)
        return P.get_fcp(str(d / "main.fcp"), logger) if logger is not None else P.get_fcp(str(d / "main.fcp"))

    trees = {}        # schema id -> kept tree object
    from_file = set() # schema ids whose kept tree was parsed from a scratch FILE (its nodes carry that path)
    encoders = {}     # schema id -> kept PackedEncoder
    obs = []
    log = []
    work = Path(tempfile.mkdtemp(prefix="simfcp-c17w-", dir=scratch_base()))
    os.chdir(work)          # files are named by paths RELATIVE to here, so that the path text is the same in every process
    try:
        for oi, op in enumerate(w["ops"]):
            kind = op[0]
            try:
                if kind == "clock":
                    clock.advance(op[1])
                elif kind == "parse_text":
                    r = parse_schema(op[1])
                    if r.is_ok():
                        trees[op[1]] = r.unwrap()
                        if schemas[op[1]].startswith("FILES:"):
                            from_file.add(op[1])
                elif kind == "parse_file" and schemas[op[1]].startswith("FILES:"):
                    r = parse_schema(op[1])
                    if r.is_ok():
                        trees[op[1]] = r.unwrap()
                        from_file.add(op[1])
                elif kind == "parse_file":
                    d = Path(f"files_{op[1]}")
                    d.mkdir(exist_ok=True)
                    (d / "main.fcp").write_text(schemas[op[1]])
                    r = P.get_fcp(str(d / "main.fcp"))
                    if r.is_ok():
                        trees[op[1]] = r.unwrap()
                        from_file.add(op[1])
                elif kind == "parse_broken" and schemas[op[1]].startswith("FILES:"):
                    pass
                elif kind == "parse_broken":
                    text = schemas[op[1]]
                    cut = op[2] % max(len(text), 1)
                    r = P.get_fcp_from_string(text[:cut] + "$" + text[cut:])     # the default Logger collects the source
                    if r.is_err():
                        fn = getattr(P.get_fcp_from_string, "__wrapped__", P.get_fcp_from_string)
                        fn.__defaults__[0].error(r.err())
                elif kind == "verify":
                    t = trees.get(op[1]) or parse_schema(op[1]).unwrap()
                    v = V.make_general_verifier()
                    for g in op[2]:
                        gens[g].Generator().register_checks(v)
                    v.verify(t)
                elif kind == "layout":
                    t = trees.get(op[1]) or parse_schema(op[1]).unwrap()
                    trees.setdefault(op[1], t)
                    enc = encoders.get(op[1])
                    if enc is None or enc.fcp is not t:
                        enc = encoders[op[1]] = ENC.make_encoder("packed", t, ENC.PackedEncoderContext().with_unroll_arrays(bool(op[2])))
                    for impl in list(t.impls):
                        try:
                            enc.generate(impl)
                        except Exception:
                            pass
                elif kind == "reflection":
                    from fcp.reflection import get_reflection_schema
                    rs = get_reflection_schema().unwrap()
                    t = trees.get(op[1]) or parse_schema(op[1]).unwrap()
                    SER.encode(rs, "Fcp", t.reflection())
                elif kind == "generate":
                    _, g, sid, reuse = op[:4]
                    disk = len(op) > 4 and bool(op[4]) and g != "reflection"
                    reused = bool(reuse and sid in trees)
                    if g == "reflection" and schemas[sid].startswith("FILES:"):
                        obs.append({"op": oi, "generator": g, "schema": sid, "reused": False, "disk": False,
                                    "error": "Skipped: the reflection of a file tree carries scratch paths"})
                        log.append([oi, kind, "skipped"])
                        continue
                    if g == "reflection" and sid in from_file:
                        # the reflection record contains the source file name of every node: a tree parsed from a
                        # scratch path is a different input, not a nondeterminism; compare like with like
                        reused = False
                    if reused:
                        t = trees[sid]
                    else:
                        pr = parse_schema(sid, E.Logger({}))
                        if pr.is_err():
                            # the schema does not even parse in this process: an outcome, to be compared with the baseline
                            obs.append({"op": oi, "generator": g, "schema": sid, "reused": False, "disk": disk,
                                        "error": "SchemaRejectedByParser: " + str(pr.err()).split("\n")[0][:120]})
                            log.append([oi, kind, "parse error"])
                            continue
                        t = pr.unwrap()
                        trees[sid] = t
                        from_file.discard(sid)
                    out = work / f"out{oi}"
                    buf = io.StringIO()
                    # where the tree came from is part of the input (nodes carry their source file name)
                    rec = {"op": oi, "generator": g, "schema": sid, "reused": reused, "disk": disk,
                           "origin": "file" if (reused and sid in from_file and not schemas[sid].startswith("FILES:")) else "string"}
                    try:
                        with contextlib.redirect_stdout(buf):
                            if g == "reflection":
                                # the binary reflection the `fcp encode` command writes for this schema
                                from fcp.reflection import get_reflection_schema
                                blob = bytes(SER.encode(get_reflection_schema().unwrap(), "Fcp", t.reflection()))
                                items = [{"type": "file", "path": out / "reflection.bin", "contents": blob.hex()}]
                            else:
                                items = generator_object(g).generate(t, {"output": out, "templates": {}, "skels": {}})
                            if disk:
                                # the same generation through GeneratorManager into an output directory that this process
                                # keeps using for this generator (it may hold files of earlier generations); what counts is
                                # what is on disk afterwards at the returned paths
                                import fcp.codegen as CG
                                pd = work / f"persist_{g}"
                                r = CG.GeneratorManager(V.make_general_verifier()).generate(g, None, None, t, str(pd))
                                if r.is_err():
                                    raise RuntimeError("rejected by the verifier: " + str(r.err()).split("\n")[0][:80])
                                disk_items = []
                                for it in items:
                                    if it.get("type") == "file":
                                        rel = os.path.relpath(str(it["path"]), str(out))
                                        fp = pd / rel
                                        body = fp.read_text() if fp.is_file() else "<missing on disk>"
                                        disk_items.append({"type": "file", "path": out / rel, "contents": body})
                                    else:
                                        disk_items.append(it)
                                items = disk_items
                        m = {}
                        for it in items:
                            if it.get("type") == "file":
                                rel = os.path.relpath(str(it["path"]), str(out))
                                body = normalise(str(it["contents"]))
                            else:
                                rel = f"<{it.get('type')}>"
                                body = str(it.get("contents"))
                            if rel in m:
                                rel = rel + "#dup"
                            m[rel] = hashlib.sha256(body.encode()).hexdigest()[:20]
                        rec["map"] = m
                        if w.get("keep_bodies"):
                            rec["bodies"] = {os.path.relpath(str(it["path"]), str(out)) if it.get("type") == "file" else "<print>":
                                             normalise(str(it["contents"])) for it in items}
                    except Exception as e:
                        rec["error"] = f"{type(e).__name__}: {str(e)[:160]}"
                    obs.append(rec)
                log.append([oi, kind, "ok"])
            except Exception as e:
                log.append([oi, kind, f"{type(e).__name__}: {str(e)[:120]}"])
    finally:
        shutil.rmtree(work, ignore_errors=True)
    sys.stdout.write("RESULT " + json.dumps({"obs": obs, "log": log}) + "\n")


if __name__ == "__main__":
    main()
