"""Schema descriptions (plain JSON-able dicts) and their FCP source rendering.

A schema is an ordered list of declarations:
  {"kind": "enum",    "name": N, "values": [[name, int], ...]}
  {"kind": "struct",  "name": N, "fields": [{"name", "id", "type", "unit"?, "range"?}, ...]}
  {"kind": "impl",    "protocol": P, "type": S, "name": N, "fields": [[k, v], ...],
                      "signals": [{"name": f, "fields": [[k, v], ...]}, ...]}
  {"kind": "service", "name": N, "id": int, "methods": [{"name", "id", "input", "output"}]}
  {"kind": "device",  "name": N, "fields": [[k, v], ...]}
  {"kind": "mod",     "path": ["a", "b"]}           (only inside module trees)
Types: ["u", n] ["i", n] ["f32"] ["f64"] ["str"] ["enum", N] ["struct", N]
       ["arr", T, n] ["dyn", T] ["opt", T]
Values: int | float | str (string literal) | {"ident": name} | [values...]
"""

from __future__ import annotations

import math

WORDS = ["speed", "temp", "volt", "cur", "pos", "flag", "mode", "state", "count", "level",
         "rate", "angle", "torque", "press", "err", "gain", "load", "duty", "phase", "tick"]
PASCAL = ["Speed", "Temp", "Volt", "Cur", "Pos", "Flag", "Mode", "State", "Count", "Level",
          "Rate", "Angle", "Torque", "Press", "Err", "Gain", "Load", "Duty", "Phase", "Tick"]
ENUMERATORS = ["Off", "On", "Idle", "Run", "Fault", "Init", "Ready", "Busy", "Low", "High",
               "Open", "Closed", "Left", "Right", "Up", "Down"]


def _is_cname(x: str) -> bool:
    import re
    return re.fullmatch(r"[A-Za-z_][A-Za-z_0-9]*", x) is not None      # the grammar's CNAME is ASCII only


def tstr(t) -> str:
    k = t[0]
    if k == "u":
        return f"u{t[1]}"
    if k == "i":
        return f"i{t[1]}"
    if k in ("f32", "f64", "str"):
        return k
    if k in ("enum", "struct"):
        return t[1]
    if k == "arr":
        return f"[{tstr(t[1])}, {t[2]}]"
    if k == "dyn":
        return f"[{tstr(t[1])}]"
    if k == "opt":
        return f"Optional[{tstr(t[1])}]"
    raise ValueError(t)


def vstr(v) -> str:
    if isinstance(v, bool):
        raise ValueError(v)
    if isinstance(v, (int, float)):
        return repr(v)
    if isinstance(v, str):
        return '"' + v + '"'
    if isinstance(v, dict):
        if "num" in v:
            return v["text"]          # a number written in another legal spelling (015, +15)
        return v["ident"]
    if isinstance(v, list):
        return "[" + ", ".join(vstr(x) for x in v) + "]"
    raise ValueError(v)


def render_decl(d, style: int = 0) -> str:
    k = d["kind"]
    ind = "    " if style % 2 == 0 else "\t"
    if k == "enum":
        body = "".join(f"{ind}{n} = {v},\n" for n, v in d["values"])
        return f"enum {d['name']} {{\n{body}}}\n"
    if k == "struct":
        out = [f"struct {d['name']} {{\n"]
        for f in d["fields"]:
            s = f"{ind}{f['name']} @{f['id']}: {tstr(f['type'])}"
            if f.get("unit") is not None:
                u = f["unit"]
                form = (style // 2) % 4
                if form == 1:
                    s += f' | unit "{u}"'                 # the grammar makes the parentheses optional
                elif form == 2 and _is_cname(u):
                    s += f" | unit({u})"                  # an identifier argument is the same value
                elif form == 3 and _is_cname(u):
                    if f.get("range") is not None:
                        # paren-less parameter after one that was closed by ')' : | range(0.0, 1.5) | unit C
                        s += f" | range({vstr(f['range'][0])}, {vstr(f['range'][1])})"
                    s += f" | unit {u}"
                    out.append(s + ",\n")
                    continue
                else:
                    s += f' | unit("{u}")'
            if f.get("range") is not None:
                s += f" | range({vstr(f['range'][0])}, {vstr(f['range'][1])})"
            out.append(s + ",\n")
        out.append("}\n")
        return "".join(out)
    if k == "impl":
        head = f"impl {d['protocol']} for {d['type']}"
        if d.get("name") and d["name"] != d["type"]:
            head += f" as {d['name']}"
        out = [head + " {\n"]
        # the grammar lets extension fields and signal blocks alternate freely: styles 8..15 put all fields but the
        # first AFTER the signal blocks (impl p for S { id: 1, signal a {..}, period: 10, })
        late = d["fields"][1:] if (style // 8) % 2 == 1 and d.get("signals") else []
        for kk, vv in (d["fields"][:1] if late else d["fields"]):
            out.append(f"{ind}{kk}: {vstr(vv)},\n")
        for sb in d.get("signals", []):
            out.append(f"{ind}signal {sb['name']} {{\n")
            for kk, vv in sb["fields"]:
                out.append(f"{ind}{ind}{kk}: {vstr(vv)},\n")
            out.append(f"{ind}}},\n")
        for kk, vv in late:
            out.append(f"{ind}{kk}: {vstr(vv)},\n")
        out.append("}\n")
        return "".join(out)
    if k == "service":
        out = [f"service {d['name']} @{d['id']} {{\n"]
        for m in d["methods"]:
            out.append(f"{ind}method {m['name']}({m['input']}) @{m['id']} returns {m['output']},\n")
        out.append("}\n")
        return "".join(out)
    if k == "device":
        out = [f"device {d['name']} {{\n"]
        for kk, vv in d["fields"]:
            out.append(f"{ind}{kk}: {vstr(vv)},\n")
        out.append("}\n")
        return "".join(out)
    if k == "mod":
        # white space, line breaks and comments are legal between the tokens of a dotted path
        sep = {0: ".", 1: " . ", 2: ".\n    ", 3: "./* sub */"}[d.get("spelling", 0)] if len(d["path"]) > 1 else "."
        tail = {0: ";", 1: " ;", 2: ";", 3: "\n;"}[d.get("spelling", 0)]
        return "mod " + sep.join(d["path"]) + tail + "\n"
    if k == "raw":
        return d["text"]
    raise ValueError(k)


def render(decls, style: int = 0, comments=None) -> str:
    parts = ['version: "3"\n']
    for i, d in enumerate(decls):
        if comments and i in comments:
            parts.append(comments[i])
        parts.append(render_decl(d, style))
    return "\n".join(parts)


# ---------------------------------------------------------------------------
# widths and reference packed layout (C04), written from the property text


def enum_bits(maxval: int) -> int:
    """Minimal width holding 0..maxval: max(1, ceil(log2(max+1)))."""
    return max(1, int(maxval).bit_length())


def index(decls):
    enums = {d["name"]: d for d in decls if d["kind"] == "enum"}
    structs = {d["name"]: d for d in decls if d["kind"] == "struct"}
    return enums, structs


def leaf_width(t, enums) -> int:
    k = t[0]
    if k in ("u", "i"):
        return t[1]
    if k == "f32":
        return 32
    if k == "f64":
        return 64
    if k == "enum":
        return enum_bits(max(v for _, v in enums[t[1]]["values"]))
    if k == "arr":
        return t[2] * leaf_width(t[1], enums)
    raise ValueError(f"no fixed width for {t}")


def is_fixed(t, structs) -> bool:
    k = t[0]
    if k in ("u", "i", "f32", "f64", "enum"):
        return True
    if k == "arr":
        return is_fixed(t[1], structs)
    if k == "struct":
        return all(is_fixed(f["type"], structs) for f in structs[t[1]]["fields"])
    return False


def contains_struct(t) -> bool:
    if t[0] == "struct":
        return True
    if t[0] in ("arr", "dyn", "opt"):
        return contains_struct(t[1])
    return False


def ref_layout(decls, struct_name: str, unroll: bool):
    """Reference packed layout: list of (hierarchical name, bitstart, bitlength, field name).

    Leaves in ascending field id at every level, nested structs flattened under
    outer::inner, unrolled arrays name_i, non-unrolled arrays one leaf of
    size x element width; starts are the running sum from 0.
    """
    enums, structs = index(decls)
    out = []
    pos = 0

    def emit_field(name, t, prefix, origin):
        nonlocal pos
        k = t[0]
        if k == "struct":
            emit_struct(t[1], prefix + name + "::")
        elif k == "arr" and unroll:
            for i in range(t[2]):
                emit_field(f"{name}_{i}", t[1], prefix, origin)
        else:
            w = leaf_width(t, enums)
            out.append((prefix + name, pos, w, origin))
            pos += w

    def emit_struct(sname, prefix):
        for f in sorted(structs[sname]["fields"], key=lambda f: f["id"]):
            emit_field(f["name"], f["type"], prefix, f["name"])

    emit_struct(struct_name, "")
    return out
