"""gensim — C10: generation is gated by verification; rejected schemas write nothing.

Real code: CLI `fcp generate` (click) and GeneratorManager.generate, make_general_verifier, the
dbc / can_c / cpp / nop plug-ins, handle_result.  Disk: a real scratch directory owned by the run,
watched by (a) content snapshots around every command and (b) an interpreter audit hook, which
also injects write faults (ENOSPC / EIO / EACCES on the k-th mutating event).  Stub: a spy around
the plug-in's Generator.generate that records what it returned in this very call.
"""

from __future__ import annotations

import contextlib
import copy
import errno
import hashlib
import io
import os
import sys
from collections import Counter
from pathlib import Path

from .kit import pristine, H, Scratch, Trace, setup_repo_path, short, stream, weighted
from .gen import schema as S
from . import parsekit as K

PROPERTY = "C10"
ENGINE = "gensim"
LEVEL = "exploration"
RULE = ("one run = one output directory with a seeded pre-state (absent, empty, user files, files named like future "
        "outputs, stale .h/.c, sub-directory) and a seeded history of 3-8 commands: gen(generator in dbc/can_c/cpp/nop, "
        "schema with zero or one injected check failure at a seeded position (root file or imported module), via CLI or API, "
        "fresh or reused manager), touch, rm, mangle(an existing file: CRLF/CR endings, truncation, emptied, non-UTF-8 prefix, ...) followed by a repetition of an earlier gen; in fault runs the audit hook fails the k-th mutating event; evaluations = gen "
        "commands judged; distinct_nontrivial counts distinct (generator, injected failure kind or none, position class, "
        "reference verdict, directory pre-state class, via, manager mode, write fault or none) tuples where the directory was "
        "non-empty before the command")
COMPONENTS = {
    "real": ["fcp.__main__ generate command (click CliRunner)", "fcp.codegen.GeneratorManager.generate / handle_result",
             "fcp.verifier.make_general_verifier + plug-in register_checks", "fcp_dbc, fcp_can_c, fcp_cpp, fcp_nop generators",
             "fcp.parser (CLI path reads schema files incl. modules)"],
    "stub": ["scratch output directory + content snapshots", "sys.addaudithook observer / write-fault injector",
             "recording wrapper around <plugin>.Generator.generate",
             "fcp_simgen: a simulator-owned third-party plug-in registering seeded checks in every verifier category",
             "simulated wall clock / user / host behind fcp_cpp.generator's module globals"],
}
ASSUMPTIONS = [
    "the reference verdict is an independently built verifier (general checks + register_checks of every generator registered "
    "on that manager so far) run on a freshly parsed copy of the same schema: the gate is under test, not the checks (C09)",
    "a check or plug-in that raises is counted (check_crashed / plugin_failed), not judged: the property is silent about them",
    "deletion of stale *.h / *.c by fcp_can_c in the accepting case is observed, not judged",
    "under injected write faults only 'rejected changes nothing' and 'accepted touches nothing outside the returned set' are asserted",
]
TIERS = {
    "quick": {"runs": 1400, "chunk": 14, "wall": 100, "chunk_timeout": 400, "selftest": 6, "fault_share": 0.25},
    "thorough": {"runs": 20000, "chunk": 40, "wall": 800, "chunk_timeout": 900, "selftest": 10, "fault_share": 0.4},
}
ISOLATE_RUNS = True


def preload():
    setup_repo_path()
    import importlib
    for m in ("fcp.codegen", "fcp.verifier", "fcp.parser", "fcp.error", "fcp.__main__", "click.testing", "fcp_dbc", "fcp_can_c", "fcp_cpp", "fcp_nop", "fcp_simgen"):
        importlib.import_module(m)


EXPECTED_PROBES = {t: ["accept:simgen", "reject:simgen", "simgen_second_check_in_category_rejects", "simgen_check_rejects_by_attempt", "returned_file_in_subdirectory", "accept:dbc", "accept:can_c", "accept:cpp", "accept:nop", "reject:dbc", "reject:can_c", "reject:cpp",
                       "reject:nop", "reject_after_successful_generation", "reject_plugin_check", "reject_general_check",
                       "reject_in_module", "manager_reused_second_generator", "via_cli", "via_api", "stale_c_files_present",
                       "write_fault_fired", "outdir_absent", "mangled_existing_file:crlf", "regenerated_over_mangled_file", "sibling_of_existing_file"] for t in TIERS}

GENERATORS = ["dbc", "can_c", "cpp", "nop", "simgen"]
SIM_CATEGORIES = ["struct", "field", "enum", "impl", "signal_block", "type", "device"]
INJECT = {
    "dup_type_struct_struct": "general", "dup_type_struct_enum": "general", "dup_type_enum_enum": "general",
    "dup_impl": "general", "dup_field": "general", "dup_enumerator_name": "general", "dup_enumerator_value": "general",
    "device_unknown_service": "general", "struct_without_fields": "general",
    "impl_unknown_struct": "plugin", "dup_can_id": "plugin", "wider_than_64": "plugin",
}
# fcp_simgen (stub plug-in): inj = ["plug", [categories...], index of the rejecting check or None, node pick]


# ---------------------------------------------------------------------------
# audit hook (installed once per process; inert unless a recorder is active)

_REC = {"active": None}
_MUTATING = {"os.remove", "os.mkdir", "os.rmdir", "os.rename", "os.truncate", "os.link", "os.symlink", "os.chmod",
             "os.utime", "shutil.rmtree", "shutil.move", "shutil.copyfile", "shutil.copytree", "os.unlink"}


class Recorder:
    def __init__(self, root: Path, fail_at=None, fail_errno=None):
        self.root = os.path.realpath(str(root))
        self.events = []
        self.fail_at = fail_at
        self.fail_errno = fail_errno
        self.fired = 0

    def under(self, p) -> bool:
        try:
            q = os.path.realpath(os.fspath(p))
        except Exception:
            return False
        return q == self.root or q.startswith(self.root + os.sep)


def _hook(event, args):
    rec = _REC["active"]
    if rec is None:
        return
    path = None
    if event == "open":
        p, mode, flags = args[0], args[1], args[2]
        writing = (isinstance(mode, str) and any(c in mode for c in "wax+")) or \
                  (mode is None and isinstance(flags, int) and flags & (os.O_WRONLY | os.O_RDWR | os.O_CREAT | os.O_TRUNC | os.O_APPEND))
        if not writing or not isinstance(p, (str, bytes, os.PathLike)):
            return
        path = p
    elif event in _MUTATING:
        path = args[0] if args else None
        if event in ("os.rename", "shutil.move", "shutil.copyfile") and len(args) > 1 and isinstance(args[1], (str, bytes, os.PathLike)):
            if rec.under(args[1]):
                path = args[1]
    else:
        return
    if path is None or isinstance(path, int) or not rec.under(path):
        return
    _REC["active"] = None          # our own bookkeeping must not re-enter
    try:
        rel = os.path.relpath(os.path.realpath(os.fspath(path)), rec.root)
        rec.events.append((event, rel))
        n = len(rec.events)
    finally:
        _REC["active"] = rec
    if rec.fail_at is not None and n == rec.fail_at:
        rec.fired += 1
        raise OSError(rec.fail_errno, os.strerror(rec.fail_errno), os.fspath(path))


_HOOKED = False


def install_hook():
    global _HOOKED
    if not _HOOKED:
        sys.addaudithook(_hook)
        _HOOKED = True


# ---------------------------------------------------------------------------
# schemas per generator, with one injected check failure


def shape_for(rng, gen):
    """A valid module-free declaration list biased to what the plug-in accepts today."""
    names = K.Names(rng)
    if gen == "dbc":
        # one struct only: dbc's duplicate-id check also counts the id-less default bindings
        enums = []
        decls = []
        if rng.random() < 0.5:
            decls += K.gen_decls(rng, names, K.new_vis(), 1, allow=("enum",))
            decls = [d for d in decls if d["kind"] == "enum"]
            enums = [d["name"] for d in decls]
        fields, budget = [], 64
        for fi, fn in enumerate(rng.sample(S.WORDS, rng.randint(1, 4))):
            w = rng.choice([w for w in (1, 4, 8, 12, 16, 32) if w <= budget] or [1])
            if budget <= 0:
                break
            if enums and rng.random() < 0.3 and budget >= 6:
                t, w = ["enum", enums[0]], 6
            else:
                t = [rng.choice("ui"), w]
            budget -= w
            fields.append({"name": fn, "id": fi, "type": t})
            if rng.random() < 0.3:
                fields[-1]["unit"] = rng.choice(["V", "rpm", "%", "\u00b0C", "\u03a9", "\u00b5s"])     # DBC files carry the unit text
        sname = names.struct()
        decls.append({"kind": "struct", "name": sname, "fields": fields})
        buses = rng.sample(["can1", "can2", None, "chassis/front"], rng.randint(1, 2))     # a bus name may contain '/': the file lands in a sub-directory
        ids = rng.sample(range(1, 2040), 5)
        for bi in range(weighted(rng, [(1, 4), (2, 3), (3, 2), (4, 1)])):
            fl = [["id", ids[bi]]]
            if bi == 0 or rng.random() < 0.8:
                fl.append(["device", rng.choice(["ecu", "bms", "inv", "dash", "charger"])])
            b = rng.choice(buses)
            if b:
                fl.append(["bus", b])
            decls.append({"kind": "impl", "protocol": "can", "type": sname, "name": sname if bi == 0 else f"{sname}Alt{bi}",
                          "fields": fl, "signals": []})
        return decls
    if gen == "can_c":
        decls = []
        ids = rng.sample(range(1, 2000), 5)
        for si in range(rng.randint(1, 4)):
            fields, budget = [], 64
            for fi, fn in enumerate(rng.sample(S.WORDS, rng.randint(1, 4))):
                opts = [w for w in (8, 16, 32) if w <= budget]
                if not opts:
                    break
                w = rng.choice(opts)
                budget -= w
                fields.append({"name": fn, "id": fi, "type": [rng.choice("ui"), w]})
            sname = names.struct()
            decls.append({"kind": "struct", "name": sname, "fields": fields})
            if rng.random() < 0.85:
                decls.append({"kind": "impl", "protocol": "can", "type": sname, "name": sname,
                              "fields": [["id", ids[si]], ["device", rng.choice(["ecu", "bms"])]]
                              + ([["period", rng.choice([10, 100])]] if rng.random() < 0.5 else []), "signals": []})
        return decls
    # cpp / nop: anything
    vis = K.new_vis()
    return K.gen_decls(rng, names, vis, rng.randint(2, 6))


def inject(rng, decls, kind):
    """Returns (decls', ok). Mutates a deep copy of the declaration list to violate one check."""
    d = copy.deepcopy(decls)
    structs = [x for x in d if x["kind"] == "struct"]
    enums = [x for x in d if x["kind"] == "enum"]
    impls = [x for x in d if x["kind"] == "impl"]
    where = weighted(rng, [("first", 1), ("middle", 1), ("last", 2)])

    def place(new):
        pos = 0 if where == "first" else len(d) if where == "last" else rng.randint(0, len(d))
        d.insert(pos, new)

    if kind == "dup_type_struct_struct" and structs:
        s = copy.deepcopy(rng.choice(structs))
        d.append(s)   # after the original, so references stay resolvable
    elif kind == "dup_type_struct_enum" and structs:
        place({"kind": "enum", "name": rng.choice(structs)["name"], "values": [["Off", 0], ["On", 1]]})
    elif kind == "dup_type_enum_enum" and enums:
        d.append(copy.deepcopy(rng.choice(enums)))
    elif kind == "dup_impl" and impls:
        d.append(copy.deepcopy(rng.choice(impls)))
        d[-1]["fields"] = [[k, (v + 1 if k == "id" else v)] for k, v in d[-1]["fields"]]
    elif kind == "dup_field" and structs:
        s = rng.choice(structs)
        f = copy.deepcopy(rng.choice(s["fields"]))
        f["id"] = 40 + len(s["fields"])
        s["fields"].insert(rng.randint(0, len(s["fields"])), f)
    elif kind == "dup_enumerator_name" and enums:
        e = rng.choice(enums)
        e["values"].append([e["values"][0][0], 61])
    elif kind == "dup_enumerator_value" and enums:
        e = rng.choice(enums)
        e["values"].append(["Spare", e["values"][0][1]])
    elif kind == "device_unknown_service":
        place({"kind": "device", "name": "node_ghost", "fields": [["services", [{"ident": "SvcNowhere"}]]]})
    elif kind == "impl_unknown_struct":
        place({"kind": "impl", "protocol": "can", "type": "RecNowhere", "name": "RecNowhere",
               "fields": [["id", 2045]], "signals": []})
    elif kind == "dup_can_id" and impls:
        i0 = rng.choice(impls)
        idv = dict((k, v) for k, v in i0["fields"]).get("id", 7)
        d.append({"kind": "impl", "protocol": "can", "type": i0["type"], "name": i0["type"] + "Twin",
                  "fields": [["id", idv]], "signals": []})
    elif kind == "wider_than_64" and structs:
        s = rng.choice(structs)
        s["fields"].append({"name": "ballast", "id": 50, "type": ["u", 64]})
    elif kind == "struct_without_fields" and structs:
        return d, True       # applied on the parsed tree (the grammar cannot express it)
    else:
        return d, False
    return d, True


def node_names(decls, category):
    """Names of the nodes a verifier category iterates over (what fcp_simgen's checks match on)."""
    if category == "struct":
        return [d["name"] for d in decls if d["kind"] == "struct"]
    if category == "enum":
        return [d["name"] for d in decls if d["kind"] == "enum"]
    if category == "type":
        return [d["name"] for d in decls if d["kind"] in ("struct", "enum")]
    if category == "field":
        return [f["name"] for d in decls if d["kind"] == "struct" for f in d["fields"]]
    if category == "impl":
        return [d["name"] for d in decls if d["kind"] in ("impl", "struct")]
    if category == "signal_block":
        return [sb["name"] for d in decls if d["kind"] == "impl" for sb in d.get("signals", [])]
    if category == "device":
        return [d["name"] for d in decls if d["kind"] == "device"]
    return []


def split_into_module(rng, decls):
    """Move a closed prefix of the declarations into one module file (CLI path). Returns {rel: text}."""
    cut = 0
    for i, x in enumerate(decls):
        if x["kind"] in ("struct", "enum"):
            cut = i + 1
        else:
            break
    if cut == 0 or cut == len(decls) and rng.random() < 0.5:
        return {"main.fcp": S.render(decls)}, False
    k = rng.randint(1, cut)
    comps = rng.sample(K.MODWORDS, rng.randint(1, 2))
    files = {os.path.join(*comps) + ".fcp": S.render(decls[:k]),
             "main.fcp": S.render([{"kind": "mod", "path": comps}] + decls[k:])}
    return files, True


# ---------------------------------------------------------------------------
# the system


class Sys_:
    def __init__(self):
        setup_repo_path()
        install_hook()
        import fcp.codegen as codegen
        import fcp.verifier as verifier
        import fcp.parser as parser
        import fcp.error as error
        import fcp.__main__ as cli
        from click.testing import CliRunner
        self.codegen, self.verifier, self.parser, self.error, self.cli = codegen, verifier, parser, error, cli
        self.runner = CliRunner()
        self.mods = {}
        import importlib
        for g in GENERATORS:
            self.mods[g] = importlib.import_module("fcp_" + g)
        self.reused_manager = None
        self.reused_gens = []

    def parse_files(self, srcdir: Path):
        lg = self.error.Logger({})
        r = self.parser.get_fcp(str(srcdir / "main.fcp"), lg)
        return r

    def late_check(self, verifier, target):
        """What a caller may do with the verifier it handed to a manager: register one more check on it (rejects the
        struct named target)."""
        from fcp.verifier import register
        from fcp.error import error
        from fcp.result import Ok

        def check(self_, fcp, node):
            if getattr(node, "name", None) == target:
                return error(f"late caller check rejects {target}", node=None)
            return Ok(())
        register(verifier, "struct")(check)

    def reference_verdict(self, srcdir: Path, gens, strip_struct=None, base="general", late=None):
        """accept | reject | crashed | unparsable — from an independently built verifier on a fresh tree."""
        r = self.parse_files(srcdir)
        if r.is_err():
            return "unparsable", None
        tree = r.unwrap()
        if strip_struct is not None:
            for s in tree.structs:
                if s.name == strip_struct:
                    s.fields = []
        v = self.verifier.make_general_verifier() if base == "general" else self.verifier.Verifier()
        if late is not None:
            self.late_check(v, late)
        for g, cfg in gens:
            # fcp_simgen's checks close over the configuration that was current when they were registered
            saved = self.mods["simgen"].CONFIG["checks"]
            self.mods["simgen"].CONFIG["checks"] = cfg or []
            try:
                self.mods[g].Generator().register_checks(v)
            finally:
                self.mods["simgen"].CONFIG["checks"] = saved
        # "any registered check rejects": call every registered check on every node of its category ourselves,
        # so that the verdict does not depend on Verifier.verify/run_checks propagating results (part of the gate)
        rejected = None
        crashed = None
        for category in sorted(v.checks):
            nodes = tree.get(category)
            if nodes.is_nothing():
                continue
            nodes = list(nodes.unwrap())        # materialised once: every check must see every node
            for check in v.checks[category]:
                for node in nodes:
                    try:
                        r = check(tree, tree, node)
                        if r.is_err() and rejected is None:
                            rejected = str(r.err())[:120]
                    except Exception as e:
                        if type(e).__name__ == "ResultAttemptError":
                            # the check rejected by propagating error(...).attempt(): in this code base that IS how an
                            # Err travels (run_checks/verify are @catch functions)
                            rejected = rejected or str(getattr(e, "error", e))[:120]
                        else:
                            crashed = crashed or f"{type(e).__name__}: {str(e)[:100]}"
        if crashed is not None:
            # a check that raises: which of 'crash' and 'reject' comes first depends on check order; not judged
            return "crashed", crashed
        if rejected is not None:
            return "reject", rejected
        return "accept", None


def snapshot(root: Path):
    out = {}
    if not root.exists():
        return None
    for dp, dn, fn in os.walk(root):
        dn.sort()
        rel = os.path.relpath(dp, root)
        if rel != ".":
            out[rel] = ("dir", "")
        for f in sorted(fn):
            p = Path(dp) / f
            out[os.path.normpath(os.path.join(rel, f))] = ("file", hashlib.sha256(p.read_bytes()).hexdigest()[:16])
    return out


def prestate_class(snap):
    if snap is None:
        return "absent"
    if not snap:
        return "empty"
    names = list(snap)
    c = []
    if any(n.endswith((".h", ".c")) for n in names):
        c.append("stale_c")
    if any(n.endswith(".fcp") for n in names):
        c.append("fcp_named")
    if any(v[0] == "dir" for v in snap.values()):
        c.append("subdir")
    return "+".join(c) or "user_files"


def gen_ops(rng, tier_cfg):
    """One run's configuration and command history."""
    enabled = rng.sample(GENERATORS, rng.randint(1, 4))
    fault_run = rng.random() < tier_cfg["fault_share"]
    ops = []
    pre = weighted(rng, [("absent", 2), ("empty", 2), ("user", 3), ("stale", 3)])
    if pre in ("user", "stale"):
        for _ in range(rng.randint(1, 3)):
            name = rng.choice(["notes.txt", "README", "default.fcp", "can1.fcp", "fcp.h", "old_can.h", "old_can.c",
                               "keep/me.txt", "ecu_can.h", "can_frame.h", "main.c", "rpc.h"]) if pre == "stale" else \
                rng.choice(["notes.txt", "README", "data.bin", "keep/me.txt", "default.fcp", "fcp.h"])
            ops.append(["touch", name, rng.randrange(1 << 30)])
    elif pre == "empty":
        ops.append(["mkdir"])
    n = rng.randint(3, 8)
    for i in range(n):
        k = weighted(rng, [("gen", 7), ("touch", 1.5), ("rm", 0.7), ("mangle", 1.2 if i > 0 else 0), ("sibling", 0.8 if i > 0 else 0),
                           ("symlink", 0.5 if i > 0 else 0)])
        if k == "gen":
            g = rng.choice(enabled)
            inj = None
            if g == "simgen":
                # 1-4 plug-in checks in seeded categories; at most one of them rejects (a seeded node of its category)
                cats = [rng.choice(SIM_CATEGORIES) for _ in range(rng.randint(1, 4))]
                if rng.random() < 0.5:
                    cats[-1] = cats[0]      # two checks in one category
                rej = rng.randrange(len(cats)) if rng.random() < 0.6 else None
                inj = ["plug", cats, rej, rng.randrange(1 << 16)]
            elif rng.random() < 0.55:
                cands = [k2 for k2, cat in INJECT.items()
                         if cat == "general" or (k2 == "impl_unknown_struct" and g in ("dbc", "can_c"))
                         or (k2 == "dup_can_id" and g == "dbc") or (k2 == "wider_than_64" and g == "can_c")]
                inj = rng.choice(cands)
            via = rng.choice(["cli", "api"])
            if inj == "struct_without_fields":
                via = "api"
            # fresh_empty: a manager built on a verifier without any check of its own (Verifier()); fresh_late: the caller
            # registers one more (rejecting) check on its verifier AFTER it built the manager with it
            op = ["gen", g, rng.randrange(1 << 30), inj, via,
                  weighted(rng, [("fresh", 4), ("reused", 4), ("fresh_empty", 2), ("fresh_late", 1)]) if via == "api" else "fresh"]
            if fault_run:
                op.append([rng.randint(1, 6), rng.choice([errno.ENOSPC, errno.EIO, errno.EACCES])])
            else:
                op.append(None)
            ops.append(op)
        elif k == "touch":
            ops.append(["touch", rng.choice(["notes.txt", "default.fcp", "fcp.h", "x_can.c", "can_frame.h", "sub/y.h"]), rng.randrange(1 << 30)])
        elif k == "sibling":
            # a user file named like an existing (typically generated) file plus a backup-style suffix, then the same
            # generation again: an accepted command may not touch it
            prev_gens = [o for o in ops if o[0] == "gen"]
            ops.append(["sibling", rng.choice([".tmp", ".bak", "~", ".orig", ".new", ".swp", ".part", ".1"]), rng.randrange(1 << 30)])
            if prev_gens:
                ops.append(list(rng.choice(prev_gens)))
        elif k == "symlink":
            # an existing file (typically an earlier output) becomes a symbolic link to a file kept OUTSIDE the output
            # directory (a shared header, a file under version control elsewhere), then the same generation is repeated:
            # what is read at the returned path afterwards must be the returned contents
            prev_gens = [o for o in ops if o[0] == "gen"]
            ops.append(["symlink", rng.randrange(1 << 30)])
            if prev_gens:
                ops.append(list(rng.choice(prev_gens)))
        elif k == "mangle":
            # an existing file (typically an earlier output) is damaged in place, then the same generation is repeated:
            # the accepted command must leave exactly the returned contents behind, whatever was there before
            prev_gens = [o for o in ops if o[0] == "gen"]
            ops.append(["mangle", rng.choice(["crlf", "cr", "trailing_ws", "truncate", "zero", "latin1", "upper", "same_size_garbage"]),
                        rng.randrange(1 << 30)])
            if prev_gens:
                ops.append(list(rng.choice(prev_gens)))
        else:
            ops.append(["rm"])
    return ops


class Spy:
    def __init__(self, gen_cls):
        self.cls = gen_cls
        self.orig = gen_cls.generate
        self.calls = 0
        self.returned = None
        self.raised = None

    def __enter__(self):
        spy = self

        def wrapper(self_, fcp, ctx):
            spy.calls += 1
            try:
                out = spy.orig(self_, fcp, ctx)
            except BaseException as e:
                spy.raised = f"{type(e).__name__}: {str(e)[:120]}"
                raise
            spy.returned = [dict(x) for x in out] if isinstance(out, list) else out
            return out

        self.cls.generate = wrapper
        return self

    def __exit__(self, *a):
        self.cls.generate = self.orig


_SORTED_LISTING = [False]


def sorted_listing():
    """Seam: the order in which a directory lists its entries belongs to the simulator (on this file system it follows
    creation order, which follows PYTHONHASHSEED through get_protocols()); this engine fixes it to sorted order, so that
    WHICH file an injected write fault hits is a function of the workload. (detsim is the engine that permutes it.)"""
    if _SORTED_LISTING[0]:
        return
    _SORTED_LISTING[0] = True
    real_listdir, real_scandir = os.listdir, os.scandir

    def listdir(path="."):
        return sorted(real_listdir(path))

    class _Scan:
        def __init__(self, path):
            it = real_scandir(path)
            try:
                self._entries = sorted(it, key=lambda e: e.name)
            finally:
                it.close()
            self._it = iter(self._entries)

        def __iter__(self):
            return self

        def __next__(self):
            return next(self._it)

        def __enter__(self):
            return self

        def __exit__(self, *a):
            return False

        def close(self):
            pass

    def scandir(path="."):
        return _Scan(path)

    os.listdir = listdir
    os.scandir = scandir


def execute(ops, work: Path, tier="quick", probes=None, tr=None, distinct=None):
    """Run one command history. Returns (violations [(class, detail, msg, opindex)], evals)."""
    probes = probes if probes is not None else Counter()
    sorted_listing()
    sysm = Sys_()
    # the C++ generator stamps the wall clock into its output: the simulator owns that clock
    from .kit.ambient import SimClock, patch_cpp_ambient
    clock = SimClock()
    restore = patch_cpp_ambient(clock)
    try:
        return _execute(sysm, clock, ops, work, tier, probes, tr, distinct)
    finally:
        restore()


def _execute(sysm, clock, ops, work, tier, probes, tr, distinct):
    out = work / "out"
    viol = []
    evals = 0
    last_change = {}     # path -> (op index, kind of op)
    had_success = False
    reused_gens = []
    reused_manager = sysm.codegen.GeneratorManager(sysm.verifier.make_general_verifier())
    for oi, op in enumerate(ops):
        if op[0] == "mkdir":
            out.mkdir(exist_ok=True)
            continue
        if op[0] == "touch":
            p = out / op[1]
            p.parent.mkdir(parents=True, exist_ok=True)
            p.write_bytes(hashlib.sha256(str(op[2]).encode()).digest() * 3)
            last_change[op[1]] = (oi, "touch")
            continue
        if op[0] == "sibling":
            snap = snapshot(out) or {}
            files = sorted(k for k, v in snap.items() if v[0] == "file")
            if files:
                victim = files[op[2] % len(files)] + op[1]
                (out / victim).write_bytes(b"user data " + str(op[2]).encode())
                last_change[victim] = (oi, "touch")
                probes["sibling_of_existing_file"] += 1
            continue
        if op[0] == "symlink":
            snap = snapshot(out) or {}
            files = sorted(k for k, v in snap.items() if v[0] == "file" and not (out / k).is_symlink())
            if files:
                victim = files[op[1] % len(files)]
                target = work / f"outside{oi}.dat"
                target.write_bytes((out / victim).read_bytes() + b"\n/* kept elsewhere */\n")
                (out / victim).unlink()
                os.symlink(str(target), str(out / victim))
                last_change[victim] = (oi, "touch")
                probes["existing_file_became_symlink_to_outside"] += 1
            continue
        if op[0] == "mangle":
            snap = snapshot(out) or {}
            files = sorted(k for k, v in snap.items() if v[0] == "file")
            if files:
                victim = files[op[2] % len(files)]
                raw = (out / victim).read_bytes()
                kind = op[1]
                if kind == "crlf":
                    new = raw.replace(b"\r\n", b"\n").replace(b"\n", b"\r\n")
                elif kind == "cr":
                    new = raw.replace(b"\r\n", b"\n").replace(b"\n", b"\r")
                elif kind == "trailing_ws":
                    new = raw + b" \n"
                elif kind == "truncate":
                    new = raw[:len(raw) // 2]
                elif kind == "zero":
                    new = b""
                elif kind == "latin1":
                    new = b"\xff\xfe" + raw
                elif kind == "upper":
                    new = raw.upper()
                else:
                    new = bytes((b ^ 0x20) if 64 < b < 123 else b for b in raw)
                (out / victim).write_bytes(new)
                last_change[victim] = (oi, "mangle")
                probes["mangled_existing_file:" + kind] += 1
            continue
        if op[0] == "rm":
            snap = snapshot(out) or {}
            files = sorted(k for k, v in snap.items() if v[0] == "file")
            if files:
                victim = files[op[1] % len(files)] if len(op) > 1 else files[0]
                (out / victim).unlink()
                last_change[victim] = (oi, "rm")
            continue
        _, g, sseed, inj, via, mgr, wfault = op
        rng = stream(sseed, "schema")
        clock.advance(rng.choice([0, 1, 1, 59, 3600, 86400 * 200]))
        decls = shape_for(rng, g)
        strip = None
        applied = False
        plug_cfg = None
        if isinstance(inj, list):
            # simgen: configure the stub plug-in's checks; the rejecting one names a node that exists in this schema
            _, cats, rej, pick = inj
            plug_cfg = []
            for ci, cat in enumerate(cats):
                target = None
                if rej == ci:
                    names = node_names(decls, cat)
                    if names:
                        target = names[pick % len(names)]
                        applied = True
                plug_cfg.append((cat, target, ["return", "attempt", "return", "attempt"][(pick >> (3 + 2 * ci)) & 3]))
            if rej is not None and rej > 0 and applied and cats[rej] in cats[:rej]:
                probes["simgen_second_check_in_category_rejects"] += 1
            inj = "plug:" + ",".join(f"{c}{'!' if t else ''}{'^' if t and st == 'attempt' else '0' if t and st == 'falsy' else ''}" for c, t, st in plug_cfg)
            if any(t and st == "attempt" for c, t, st in plug_cfg):
                probes["simgen_check_rejects_by_attempt"] += 1
        elif inj:
            decls, applied = inject(rng, decls, inj)
            if inj == "struct_without_fields" and applied:
                strip = [x for x in decls if x["kind"] == "struct"][0]["name"]
        sysm.mods["simgen"].CONFIG["checks"] = plug_cfg or []
        in_module = False
        if via == "cli" and rng.random() < 0.5:
            files, in_module = split_into_module(rng, decls)
        else:
            files = {"main.fcp": S.render(decls)}
        srcdir = work / f"src{oi}"
        K.write_files(srcdir, files)
        # which checks are registered on the manager that will run this command
        if via == "api" and mgr == "reused":
            gens_reg = reused_gens + [(g, plug_cfg)]
        else:
            gens_reg = [(g, plug_cfg)]
        late_target = None
        if mgr == "fresh_late":
            sn = [x["name"] for x in decls if x["kind"] == "struct"]
            late_target = sn[0] if sn else None
        verdict, why = sysm.reference_verdict(srcdir, gens_reg, strip, "empty" if mgr == "fresh_empty" else "general", late_target)
        if mgr in ("fresh_empty", "fresh_late"):
            probes["manager_" + mgr] += 1
        if verdict != "unparsable" and len(gens_reg) > 1:
            # A reused manager: whether checks registered for EARLIER generators are still "registered" for this command is
            # not fixed by the property (the pinned tree accumulates them; a per-command verifier would not). Certainly
            # registered: the general checks and this generator's. Judge only when both readings agree.
            v_min, why_min = sysm.reference_verdict(srcdir, gens_reg[-1:], strip)
            if v_min != verdict:
                probes["reused_manager_verdict_depends_on_accumulation"] += 1
                if tr is not None:
                    tr.add("gen_ambiguous", g=g, inj=str(inj), verdict=[verdict, v_min])
                # still execute the command (it is part of the history), but do not judge it
                verdict = "ambiguous"
        if verdict == "unparsable":
            probes["generated_schema_unparsable"] += 1
            continue
        before = snapshot(out)
        pre = prestate_class(before)
        rec = Recorder(out, wfault[0] if wfault else None, wfault[1] if wfault else None)
        stdout = io.StringIO()
        api_result = None
        crashed = None
        with Spy(sysm.mods[g].Generator) as spy:
            _REC["active"] = rec
            try:
                if via == "cli":
                    r = sysm.runner.invoke(sysm.cli.main, ["generate", g, str(srcdir / "main.fcp"), str(out)])
                    stdout.write(r.output or "")
                    if r.exception is not None and not isinstance(r.exception, SystemExit):
                        crashed = f"{type(r.exception).__name__}: {str(r.exception)[:160]}"
                    cli_exit = r.exit_code
                else:
                    tree = sysm.parse_files(srcdir).unwrap()
                    if strip:
                        for s in tree.structs:
                            if s.name == strip:
                                s.fields = []
                    if mgr == "reused":
                        manager = reused_manager
                        reused_gens.append((g, plug_cfg))
                        if len(set(x[0] for x in reused_gens)) >= 2:
                            probes["manager_reused_second_generator"] += 1
                    elif mgr == "fresh_empty":
                        manager = sysm.codegen.GeneratorManager(sysm.verifier.Verifier())
                    else:
                        callers_verifier = sysm.verifier.make_general_verifier()
                        manager = sysm.codegen.GeneratorManager(callers_verifier)
                        if late_target is not None:
                            sysm.late_check(callers_verifier, late_target)
                    with contextlib.redirect_stdout(stdout):
                        try:
                            api_result = manager.generate(g, None, None, tree, str(out))
                        except Exception as e:
                            crashed = f"{type(e).__name__}: {str(e)[:160]}"
            finally:
                _REC["active"] = None
        after = snapshot(out)
        evals += 1
        probes["via_" + via] += 1
        if pre == "absent":
            probes["outdir_absent"] += 1
        if "stale_c" in pre:
            probes["stale_c_files_present"] += 1
        if rec.fired:
            probes["write_fault_fired"] += 1
        b, a = before or {}, after or {}
        mangled_before = {k2: v2 for k2, v2 in last_change.items() if v2[1] == "mangle"}
        changed = sorted(k for k in set(b) | set(a) if b.get(k) != a.get(k))
        created_or_modified = [k for k in changed if k in a]
        deleted = [k for k in changed if k not in a]
        for kpath in changed:
            last_change[kpath] = (oi, f"gen:{verdict}")
        mut_events = [e for e in rec.events]
        text = stdout.getvalue()
        if tr is not None:
            tr.add("gen", g=g, inj=inj, via=via, mgr=mgr, verdict=verdict, pre=pre, changed=changed,
                   events=sorted(set(f'{e[0]} {e[1] if (e[1] in a or e[1] in b or e[1] == ".") else "<transient path>"}' for e in mut_events)), spy=spy.calls, crashed=bool(crashed), wfault=wfault)
        if distinct is not None and before:
            distinct.add(short([g, inj if applied else None, in_module, verdict, pre, via, mgr, wfault[1] if wfault and rec.fired else None]))
        where = f"op {oi}: gen {g} via {via} ({mgr} manager), injected={inj if applied else None}, verdict={verdict}"
        if verdict == "crashed":
            probes["check_crashed"] += 1
            continue
        if verdict == "ambiguous":
            if spy.calls and not crashed:
                had_success = True
            continue
        if verdict == "reject":
            probes["reject:" + g] += 1
            if had_success:
                probes["reject_after_successful_generation"] += 1
            probes["reject_plugin_check" if (applied and (INJECT.get(inj) == "plugin" or str(inj).startswith("plug:"))) else "reject_general_check"] += 1
            if in_module:
                probes["reject_in_module"] += 1
            if spy.calls:
                viol.append(("generated_despite_rejection", g, f"{where}: the plug-in's generate() ran although a check rejects "
                                                               f"the schema ({why})", oi))
            if changed:
                viol.append(("rejected_schema_changed_directory", g, f"{where}: created/modified {created_or_modified[:5]} deleted "
                                                                     f"{deleted[:5]} ({why})", oi))
            elif (before is None) != (after is None):
                viol.append(("rejected_schema_changed_directory", g, f"{where}: output directory itself was created", oi))
            elif mut_events:
                viol.append(("rejected_schema_touched_directory", g, f"{where}: mutating file-system calls {mut_events[:4]} under the "
                                                                     f"output directory (contents ended up identical)", oi))
            if crashed and not rec.fired:
                viol.append(("rejection_crashes", g, f"{where}: {crashed}", oi))
            elif not crashed:
                if via == "api":
                    if api_result is None or not (hasattr(api_result, "is_err") and api_result.is_err()):
                        viol.append(("rejection_not_reported", g, f"{where}: generate() returned {api_result!r}, not an Err", oi))
                else:
                    if not text.strip() and cli_exit == 0:
                        viol.append(("rejection_not_reported", g, f"{where}: CLI printed no diagnostic: {text[:120]!r}", oi))
        else:   # accept
            if spy.raised or (spy.calls and spy.returned is None):
                probes["plugin_failed"] += 1
                continue
            if spy.calls == 0:
                if crashed and rec.fired:
                    continue
                viol.append(("accepted_but_not_generated", g, f"{where}: all checks pass but the plug-in was never called "
                                                              f"({crashed or (api_result if via == 'api' else text[:160])})", oi))
                continue
            items = spy.returned if isinstance(spy.returned, list) else []
            fitems = [x for x in items if x.get("type") == "file"]
            rel = {}
            for x in fitems:
                try:
                    # the directory part is resolved, the file name itself is not (it may be a symbolic link)
                    xp = str(x["path"])
                    rp = os.path.relpath(os.path.join(os.path.realpath(os.path.dirname(xp)), os.path.basename(xp)), os.path.realpath(str(out)))
                except Exception:
                    rp = str(x["path"])
                rel[rp] = str(x.get("contents"))
            allowed_dirs = set()
            for rp in rel:
                d_ = os.path.dirname(rp)
                while d_:
                    allowed_dirs.add(d_)
                    d_ = os.path.dirname(d_)
            if any(os.sep in rp for rp in rel):
                probes["returned_file_in_subdirectory"] += 1
            outside = [k for k in created_or_modified if k not in rel and k not in allowed_dirs]
            # events on paths the plug-in did not return count only if such a path exists before or after the command:
            # a transient file (write-to-temporary-then-rename) leaves exactly the returned files behind
            ev_outside = [e for e in mut_events if e[1] not in rel and e[1] not in allowed_dirs and e[1] != "."
                          and e[0] not in ("os.remove", "os.unlink") and (e[1] in a or e[1] in b)]
            if outside:
                viol.append(("wrote_unreturned_path", g, f"{where}: created/modified {outside[:5]} which the plug-in did not return", oi))
            elif ev_outside:
                viol.append(("wrote_unreturned_path", g, f"{where}: file-system calls {ev_outside[:4]} on paths the plug-in did not return", oi))
            if rec.fired or (wfault and crashed):
                probes["accepted_under_write_fault"] += 1
                continue
            if crashed:
                viol.append(("accepted_generation_crashes", g, f"{where}: {crashed}", oi))
                continue
            if via == "api" and not (hasattr(api_result, "is_ok") and api_result.is_ok()):
                viol.append(("accepted_but_err", g, f"{where}: generate() returned {api_result!r}", oi))
                continue
            probes["accept:" + g] += 1
            had_success = True
            if any(k2 in rel and ops[oi2][0] == "mangle" for k2, (oi2, _) in list(mangled_before.items())):
                probes["regenerated_over_mangled_file"] += 1
            for rp, contents in rel.items():
                p = out / rp
                if not p.is_file():
                    viol.append(("returned_file_missing", g, f"{where}: {rp} was returned by the plug-in but is not on disk", oi))
                    break
                if p.read_bytes() != contents.encode():
                    viol.append(("returned_file_content_differs", g, f"{where}: {rp} on disk differs from the returned contents", oi))
                    break
            for x in items:
                if x.get("type") == "print" and str(x.get("contents")) not in text:
                    viol.append(("print_item_not_printed", g, f"{where}: a print item did not appear on stdout", oi))
                    break
        if viol:
            break
    # history check: nothing that exists (or vanished) was last changed by a rejected command
    for kpath, (oi, kind) in sorted(last_change.items()):
        if kind == "gen:reject" and not viol:
            viol.append(("rejected_schema_changed_directory", "history", f"{kpath} was last changed by the rejected command at op {oi}", oi))
    return viol, evals


def mk(v, ops, run=None):
    cls, detail, msg, oi = v
    return {"class": cls, "signature": f"C10:{cls}:{detail}", "message": msg, "run": run, "workload": {"ops": ops[:oi + 1]}}


def run_one(seed: int, index: int, tier: str) -> dict:
    run_seed = H(seed, PROPERTY, index)
    tr = Trace()
    probes = Counter()
    distinct = set()
    res = {"index": index, "violations": [], "evals": 0, "harness_errors": []}
    ops = gen_ops(stream(run_seed, "ops"), TIERS[tier])
    with Scratch("c10") as work:
        viol, evals = execute(ops, work, tier, probes, tr, distinct)
    res["evals"] = evals
    for v in viol[:3]:
        res["violations"].append(mk(v, ops, index))
    faults = Counter()
    for op in ops:
        if op[0] == "gen":
            if isinstance(op[3], list):
                faults["check_failure:simgen_plugin_check" if op[3][2] is not None else "simgen_plugin_checks_all_pass"] += 1
            elif op[3]:
                faults["check_failure:" + op[3]] += 1
            if op[6]:
                faults["write_fault_armed"] += 1
    faults["write_fault_fired"] = probes.get("write_fault_fired", 0)
    res["digest"] = tr.digest()
    res["probes"] = probes
    res["faults"] = faults
    res["distinct"] = distinct
    res["sample"] = {"ops": ops, "trace": tr.events[:3]} if index % 100 == 0 else None
    return res


def check_workload(w):
    with Scratch("c10r") as work:
        viol, _ = execute(w["ops"], work)
    return [mk(v, w["ops"]) for v in viol]


def replay(workload):
    return check_workload(workload)


def minimise(v):
    from .kit.ddmin import ddmin
    w = v["workload"]
    key = v["signature"]
    last = w["ops"][-1]

    def fails(ops):
        if not ops or ops[-1] != last:
            return False
        return any(x["signature"] == key for x in pristine(check_workload, {"ops": ops}))

    head = ddmin(list(w["ops"][:-1]), lambda h: fails(h + [last]), 40) if len(w["ops"]) > 2 else w["ops"][:-1]
    if len(head) == 1 and fails([last]):
        head = []
    ops = head + [last]
    if not fails(ops):
        return v
    out = dict(v, workload={"ops": ops}, minimised=True)
    vs = [x for x in pristine(check_workload, out["workload"]) if x["signature"] == key]
    if vs:
        out["message"] = vs[0]["message"]
    return out
