"""Simulation kernel shared by all engines (DESIGN.md section 2).

Nothing in here draws from a PRNG that is not derived from the run seed, reads a
real clock inside a run, iterates a set, or calls hash().
"""

from __future__ import annotations

import hashlib
import json
import os
import random
import shutil
import sys
import tempfile
from pathlib import Path

VERIF_ROOT = Path(__file__).resolve().parents[2]
DEFAULT_SEED = 20261004


def repo_root() -> Path:
    return Path(os.environ.get("VERIF_REPO", "/repo")).resolve()


_PATH_DONE = False


def setup_repo_path() -> Path:
    """Put the repository under test first on sys.path (src + every plug-in)."""
    global _PATH_DONE
    root = repo_root()
    if _PATH_DONE:
        return root
    entries = [str(root / "src")]
    plug = root / "plugins"
    if plug.is_dir():
        for d in sorted(os.listdir(plug)):
            if d.startswith("fcp_") and (plug / d).is_dir():
                entries.append(str(plug / d))
    # the simulator's own third-party plug-in (a stub; see simfcp/plugins/fcp_simgen)
    entries.append(str(VERIF_ROOT / "simfcp" / "plugins"))
    # drop any other copy of the repo (editable install .pth) from the path
    sys.path[:] = [p for p in sys.path if p not in entries]
    sys.path[0:0] = entries
    for name in list(sys.modules):
        if name == "fcp" or name.startswith("fcp.") or name.startswith("fcp_"):
            mod = sys.modules[name]
            f = getattr(mod, "__file__", None) or ""
            if f and not f.startswith(str(root)):
                raise RuntimeError(f"{name} already imported from {f}, not from {root}")
    _PATH_DONE = True
    import logging
    logging.disable(logging.CRITICAL)      # cantools / fcp log through the root logger; keep the check's output clean
    return root


def repo_tree_digest() -> str:
    """sha-256 over the python/jinja/c sources of the tree under test (evidence only)."""
    root = repo_root()
    h = hashlib.sha256()
    for base in ("src", "plugins"):
        for dp, dn, fn in os.walk(root / base):
            dn[:] = sorted(d for d in dn if d not in ("__pycache__", ".git", "tests", "example"))
            for f in sorted(fn):
                if f.endswith((".py", ".jinja", ".j2", ".h", ".c")):
                    p = Path(dp) / f
                    h.update(str(p.relative_to(root)).encode())
                    h.update(p.read_bytes())
    return h.hexdigest()[:16]


def H(*parts) -> int:
    """Stable 64-bit hash of a tuple of JSON-able parts."""
    s = json.dumps(parts, sort_keys=True, separators=(",", ":"), default=str)
    return int.from_bytes(hashlib.sha256(s.encode()).digest()[:8], "big")


def stream(run_seed: int, name: str) -> random.Random:
    return random.Random(H(run_seed, name))


def canon(obj) -> str:
    return json.dumps(obj, sort_keys=True, separators=(",", ":"), default=str)


def digest(obj) -> str:
    return hashlib.sha256(canon(obj).encode()).hexdigest()[:16]


def short(obj) -> str:
    """8-byte key used for distinct-case counting."""
    return hashlib.sha256(canon(obj).encode()).hexdigest()[:12]


class Trace:
    """Ordered event list of one run; its canonical JSON is the run digest."""

    __slots__ = ("events",)

    def __init__(self) -> None:
        self.events = []

    def add(self, kind: str, **kw) -> None:
        kw["k"] = kind
        kw["n"] = len(self.events)
        self.events.append(kw)

    def digest(self) -> str:
        return digest(self.events)


def scratch_base() -> Path:
    for cand in (os.environ.get("VERIF_SCRATCH"), "/dev/shm", tempfile.gettempdir()):
        if cand and os.path.isdir(cand) and os.access(cand, os.W_OK):
            return Path(cand)
    return Path(tempfile.gettempdir())


class Scratch:
    """A private directory owned by one run; removed on exit."""

    def __init__(self, tag: str) -> None:
        self.tag = tag
        self.path: Path | None = None

    def __enter__(self) -> Path:
        self.path = Path(tempfile.mkdtemp(prefix=f"simfcp-{self.tag}-", dir=scratch_base()))
        return self.path

    def __exit__(self, *exc) -> None:
        if self.path is not None:
            shutil.rmtree(self.path, ignore_errors=True)


def weighted(rng: random.Random, table):
    """table: list of (item, weight)."""
    total = sum(w for _, w in table)
    x = rng.random() * total
    for item, w in table:
        x -= w
        if x < 0:
            return item
    return table[-1][0]


def pristine(fn, *args, timeout: float = 600):
    """Evaluate fn(*args) in a pristine fork of this process, so that process-global state of the code under test
    left by one evaluation (caches, registries, default-argument objects) cannot leak into the next one."""
    from .driver import in_fork
    return in_fork(fn, *args, timeout=timeout)


def set_debug_logging() -> None:
    """Ambient configuration of the hosting process: the root logger at DEBUG (what fcp's own setup_logging() does),
    with the records swallowed. Only ever called inside a run's own fork / interpreter."""
    import logging
    setup_repo_path()          # (it silences logging when first called: must not come after this)
    logging.disable(logging.NOTSET)
    root = logging.getLogger()
    root.handlers[:] = [logging.NullHandler()]
    root.setLevel(logging.DEBUG)
