"""Seams for the ambient inputs of fcp_cpp.generator (wall clock, user, host).

The generator reads datetime.datetime.now(), pwd.getpwuid(os.getuid())[0] and socket.gethostname()
through its own module globals, so replacing those three names from outside puts them under the
simulator without touching the repository.
"""

from __future__ import annotations

import datetime as _dt
import types

from . import setup_repo_path


class SimClock:
    """Simulated wall clock: only moves when the scheduler says so."""

    def __init__(self, start: int = 1_700_000_000):
        self.t = start

    def advance(self, seconds: int) -> None:
        self.t += int(seconds)

    def now(self):
        return _dt.datetime(1970, 1, 1) + _dt.timedelta(seconds=self.t)


def patch_cpp_ambient(clock: SimClock, user: str = "simuser", host: str = "simhost"):
    """Install the seams; returns a function that restores the originals."""
    setup_repo_path()
    import fcp_cpp.generator as G

    saved = (G.datetime, G.pwd, G.socket)

    class _DT:
        @staticmethod
        def now(tz=None):
            return clock.now()

    G.datetime = types.SimpleNamespace(datetime=_DT, timedelta=_dt.timedelta, date=_dt.date)
    G.pwd = types.SimpleNamespace(getpwuid=lambda uid: (user, "x", uid, uid, "", "/", "/bin/sh"))
    G.socket = types.SimpleNamespace(gethostname=lambda: host)

    def restore():
        G.datetime, G.pwd, G.socket = saved

    return restore
