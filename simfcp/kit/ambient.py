"""Seams for the ambient inputs of fcp_cpp.generator (wall clock, user, host).

The generator reads datetime.datetime.now(), pwd.getpwuid(os.getuid())[0] and socket.gethostname()
through its own module globals, so replacing those three names from outside puts them under the
simulator without touching the repository.
"""

from __future__ import annotations

import datetime as _dt
import types

from . import setup_repo_path


class SimClock:
    """Simulated wall clock: only moves when the scheduler says so."""

    def __init__(self, start: int = 1_700_000_000):
        self.t = start

    def advance(self, seconds: int) -> None:
        self.t += int(seconds)

    def now(self):
        return _dt.datetime(1970, 1, 1) + _dt.timedelta(seconds=self.t)


def patch_cpp_ambient(clock: SimClock, user: str = "simuser", host: str = "simhost"):
    """Install the seams; returns a function that restores the originals."""
    setup_repo_path()
    import fcp_cpp.generator as G

    saved = (G.datetime, G.pwd, G.socket)

    class _DT:
        @staticmethod
        def now(tz=None):
            return clock.now()

    G.datetime = types.SimpleNamespace(datetime=_DT, timedelta=_dt.timedelta, date=_dt.date)
    G.pwd = types.SimpleNamespace(getpwuid=lambda uid: (user, "x", uid, uid, "", "/", "/bin/sh"))
    G.socket = types.SimpleNamespace(gethostname=lambda: host)

    def restore():
        G.datetime, G.pwd, G.socket = saved

    return restore


def install_global_ambient(clock: SimClock, user: str = "simuser", host: str = "simhost") -> None:
    """Put the process-wide wall clock, user and host name under the simulator (worker interpreters only).

    Must run before the code under test is imported, so that `from datetime import datetime` style imports
    bind the simulated classes too.  Monotonic clocks are left alone (timeouts keep working).
    """
    import datetime as D
    import getpass
    import os
    import platform
    import pwd
    import socket
    import time as T

    real_dt, real_date = D.datetime, D.date

    class SimDateTime(real_dt):
        @classmethod
        def now(cls, tz=None):
            base = real_dt(1970, 1, 1) + D.timedelta(seconds=clock.t)
            if tz is not None:
                base = base.replace(tzinfo=D.timezone.utc).astimezone(tz)
            return cls(base.year, base.month, base.day, base.hour, base.minute, base.second, base.microsecond, base.tzinfo)

        @classmethod
        def utcnow(cls):
            return cls.now()

        @classmethod
        def today(cls):
            return cls.now()

    class SimDate(real_date):
        @classmethod
        def today(cls):
            n = SimDateTime.now()
            return cls(n.year, n.month, n.day)

    D.datetime = SimDateTime
    D.date = SimDate

    real = {k: getattr(T, k) for k in ("time", "time_ns", "localtime", "gmtime", "ctime", "asctime", "strftime")}
    T.time = lambda: float(clock.t)
    T.time_ns = lambda: int(clock.t) * 1_000_000_000
    T.localtime = lambda secs=None: real["localtime"](clock.t if secs is None else secs)
    T.gmtime = lambda secs=None: real["gmtime"](clock.t if secs is None else secs)
    T.ctime = lambda secs=None: real["ctime"](clock.t if secs is None else secs)
    T.asctime = lambda t=None: real["asctime"](real["localtime"](clock.t) if t is None else t)
    T.strftime = lambda fmt, t=None: real["strftime"](fmt, real["localtime"](clock.t) if t is None else t)

    entry = pwd.struct_passwd((user, "x", 1000, 1000, "", "/home/" + user, "/bin/sh"))
    pwd.getpwuid = lambda uid: entry
    getpass.getuser = lambda: user
    os.getlogin = lambda: user
    for k in ("USER", "LOGNAME", "USERNAME"):
        os.environ[k] = user
    os.environ["HOSTNAME"] = host
    socket.gethostname = lambda: host
    socket.getfqdn = lambda name="": host
    platform.node = lambda: host
    real_uname = os.uname()

    class _Uname(tuple):
        sysname, nodename, release, version, machine = real_uname.sysname, host, real_uname.release, real_uname.version, real_uname.machine

    os.uname = lambda: _Uname((real_uname.sysname, host, real_uname.release, real_uname.version, real_uname.machine))
