"""Delta debugging on explicit workloads (operation lists, integer arguments, text)."""

from __future__ import annotations


def ddmin(items, test, max_tests: int = 600):
    """Smallest sub-list (1-minimal within the budget) of items for which test() stays True."""
    items = list(items)
    budget = [max_tests]

    def t(c):
        if budget[0] <= 0:
            return False
        budget[0] -= 1
        try:
            return bool(test(c))
        except Exception:
            return False

    n = 2
    while len(items) >= 2 and budget[0] > 0:
        size = max(1, len(items) // n)
        chunks = [items[i:i + size] for i in range(0, len(items), size)]
        reduced = False
        for i in range(len(chunks)):
            comp = [x for j, ch in enumerate(chunks) if j != i for x in ch]
            if comp and t(comp):
                items = comp
                n = max(n - 1, 2)
                reduced = True
                break
        if not reduced:
            if n >= len(items):
                break
            n = min(len(items), n * 2)
    if len(items) == 1 and budget[0] > 0:
        pass
    return items


def shrink_ints(vals, test, max_tests: int = 400, floor: int = 0):
    """Move each integer towards `floor` (try floor, floor+1, halves, -1) while test() stays True."""
    vals = list(vals)
    budget = [max_tests]

    def t(c):
        if budget[0] <= 0:
            return False
        budget[0] -= 1
        try:
            return bool(test(c))
        except Exception:
            return False

    changed = True
    while changed and budget[0] > 0:
        changed = False
        for i in range(len(vals)):
            v = vals[i]
            if v == floor:
                continue
            cands = []
            for c in (floor, floor + 1, floor + 2, v // 2, v - (v - floor) // 4, v - 1):
                if floor <= c < v and c not in cands:
                    cands.append(c)
            for c in cands:
                trial = vals[:i] + [c] + vals[i + 1:]
                if t(trial):
                    vals = trial
                    changed = True
                    break
    return vals


def shrink_text_lines(text: str, test, max_tests: int = 300) -> str:
    lines = text.split("\n")
    lines = ddmin(lines, lambda ls: test("\n".join(ls)), max_tests)
    return "\n".join(lines)
