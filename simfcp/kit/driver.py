"""Batch driver: fork pool, determinism self-test, minimisation, known findings,
replay files, evidence, exit protocol (DESIGN.md section 2)."""

from __future__ import annotations

import faulthandler
import fnmatch
import importlib
import json
import multiprocessing as mp
import multiprocessing.connection as mpc
import os
import pickle
import random
import subprocess
import sys
import time
import traceback
from collections import Counter
from pathlib import Path

from . import DEFAULT_SEED, H, VERIF_ROOT, canon, digest, repo_root, repo_tree_digest

ENGINES = {
    "C04": "simfcp.layoutsim",
    "C10": "simfcp.gensim",
    "C11": "simfcp.parsesim11",
    "C16": "simfcp.wiresim",
    "C17": "simfcp.detsim",
    "C19": "simfcp.schedsim",
    "C20": "simfcp.parsesim20",
}

EXIT_OK, EXIT_VIOLATION, EXIT_HARNESS = 0, 1, 3


class HarnessError(Exception):
    pass


# ----------------------------------------------------------------------------
# merged result of many runs


class Merged:
    def __init__(self) -> None:
        self.runs = 0
        self.evals = 0
        self.sim_time = 0
        self.stats = Counter()
        self.faults = Counter()
        self.probes = Counter()
        self.distinct = set()
        self.states = set()
        self.samples = []
        self.violations = []
        self.digests = {}
        self.harness_errors = []

    def add(self, r: dict) -> None:
        self.runs += r.get("runs", 1)
        self.evals += r.get("evals", 0)
        self.sim_time += r.get("sim_time", 0)
        self.stats.update(r.get("stats", {}))
        self.faults.update(r.get("faults", {}))
        self.probes.update(r.get("probes", {}))
        self.distinct.update(r.get("distinct", ()))
        self.states.update(r.get("states", ()))
        for s in r.get("samples", ()):
            if len(self.samples) < 6:
                self.samples.append(s)
        self.violations.extend(r.get("violations", ()))
        self.digests.update(r.get("digests", {}))
        self.harness_errors.extend(r.get("harness_errors", ()))


def merge_run(agg: dict, r: dict) -> None:
    """Worker-side accumulation of one run result into a chunk result."""
    agg["runs"] = agg.get("runs", 0) + 1
    agg["evals"] = agg.get("evals", 0) + r.get("evals", 0)
    agg["sim_time"] = agg.get("sim_time", 0) + r.get("sim_time", 0)
    for k in ("stats", "faults", "probes"):
        c = agg.setdefault(k, Counter())
        c.update(r.get(k, {}))
    agg.setdefault("distinct", set()).update(r.get("distinct", ()))
    agg.setdefault("states", set()).update(r.get("states", ()))
    s = agg.setdefault("samples", [])
    if r.get("sample") is not None and len(s) < 2:
        s.append(r["sample"])
    agg.setdefault("violations", []).extend(r.get("violations", ()))
    agg.setdefault("digests", {})[r["index"]] = r["digest"]
    agg.setdefault("harness_errors", []).extend(r.get("harness_errors", ()))


# ----------------------------------------------------------------------------
# fork pool: every chunk runs in a pristine fork of this (idle) process


def _child(conn, eng_name: str, seed: int, tier: str, indices, timeout: float) -> None:
    try:
        faulthandler.enable()
        faulthandler.dump_traceback_later(timeout, exit=True)
        eng = importlib.import_module(eng_name)
        agg: dict = {}
        if getattr(eng, "ISOLATE_RUNS", False):
            # every run in its own pristine fork: what a run observes depends on its own workload only, never on
            # process-global state of the code under test left behind by an earlier run of the same worker
            for i in indices:
                merge_run(agg, isolated_run(eng, eng_name, seed, i, tier, timeout))
        else:
            for i in indices:
                merge_run(agg, eng.run_one(seed, i, tier))
        conn.send_bytes(pickle.dumps(("ok", agg)))
    except BaseException:
        try:
            conn.send_bytes(pickle.dumps(("err", traceback.format_exc())))
        except Exception:
            pass
    finally:
        conn.close()
        os._exit(0)


def run_pool(eng_name: str, seed: int, tier: str, chunks, nproc: int, wall: float,
             chunk_timeout: float, merged: Merged) -> dict:
    ctx = mp.get_context("fork")
    t0 = time.monotonic()
    pending = list(chunks)
    pending.reverse()
    live = {}
    started = finished = 0
    skipped = 0
    while pending or live:
        while pending and len(live) < nproc:
            if time.monotonic() - t0 > wall or len(merged.violations) >= 150:
                skipped = len(pending)
                pending.clear()
                break
            ch = pending.pop()
            r, w = ctx.Pipe(duplex=False)
            p = ctx.Process(target=_child, args=(w, eng_name, seed, tier, ch, chunk_timeout))
            p.start()
            w.close()
            live[r] = (p, ch, time.monotonic())
            started += 1
        if not live:
            break
        ready = mpc.wait(list(live), timeout=1.0)
        now = time.monotonic()
        for r in ready:
            p, ch, ts = live.pop(r)
            try:
                kind, payload = pickle.loads(r.recv_bytes())
            except (EOFError, OSError):
                kind, payload = "err", f"worker for runs {ch[0]}..{ch[-1]} died without a result (exit {p.exitcode})"
            r.close()
            p.join()
            finished += 1
            if kind == "ok":
                merged.add(payload)
            else:
                merged.harness_errors.append(payload)
        for r, (p, ch, ts) in list(live.items()):
            if now - ts > chunk_timeout + 30:
                p.kill()
                p.join()
                live.pop(r)
                r.close()
                merged.harness_errors.append(f"worker for runs {ch[0]}..{ch[-1]} exceeded {chunk_timeout}s and was killed")
    return {"chunks_started": started, "chunks_finished": finished, "chunks_skipped_wall_budget": skipped,
            "pool_wall_s": round(time.monotonic() - t0, 2)}


def in_fork(fn, *args, timeout: float = 600):
    """Run fn(*args) in a pristine fork of this process; returns its result (or raises HarnessError)."""
    ctx = mp.get_context("fork")
    r, w = ctx.Pipe(duplex=False)

    def child():
        try:
            # no faulthandler watchdog here: re-arming it in a child forked from a process whose watchdog thread is
            # running deadlocks in CPython; the parent enforces the timeout (poll + kill) instead
            w.send_bytes(pickle.dumps(("ok", fn(*args))))
        except BaseException:
            w.send_bytes(pickle.dumps(("err", traceback.format_exc())))
        finally:
            w.close()
            os._exit(0)

    p = ctx.Process(target=child)
    p.start()
    w.close()
    try:
        if not r.poll(timeout):
            p.kill()
            raise HarnessError(f"forked helper exceeded {timeout}s and was killed")
        kind, payload = pickle.loads(r.recv_bytes())
    except (EOFError, OSError):
        kind, payload = "err", "forked helper died"
    finally:
        r.close()
        p.join()
    if kind != "ok":
        raise HarnessError(str(payload)[-1500:])
    return payload


def runs_optimized(eng, seed: int, index: int) -> bool:
    """A seeded share of the runs of some engines executes in a `python -O` interpreter (asserts compiled away,
    __debug__ false): an interpreter configuration real deployments use."""
    share = getattr(eng, "OPTIMIZE_SHARE", 0)
    return share > 0 and H(seed, eng.PROPERTY, index, "python -O") % 1000 < share * 1000


def isolated_run(eng, eng_name: str, seed: int, index: int, tier: str, timeout: float) -> dict:
    if not runs_optimized(eng, seed, index):
        return in_fork(eng.run_one, seed, index, tier, timeout=timeout)
    import base64
    env = dict(os.environ, VERIF_SEED=str(seed), VERIF_INNER="1")
    cmd = [sys.executable, "-O", "-c", "from simfcp.kit.driver import main; main()", eng.PROPERTY, "--tier", tier, "--run-one", str(index)]
    p = subprocess.run(cmd, env=env, cwd=str(VERIF_ROOT), capture_output=True, text=True, timeout=timeout)
    lines = [l for l in p.stdout.splitlines() if l.startswith("RUNRESULT ")]
    if p.returncode != 0 or not lines:
        raise HarnessError(f"python -O run {index} failed ({p.returncode}): {p.stderr[-800:]}")
    r = pickle.loads(base64.b64decode(lines[-1][10:]))
    r.setdefault("probes", Counter())["run_under_python_O"] += 1
    for v in r.get("violations", ()):
        v["workload"]["interpreter"] = "python -O"      # the replay must run under the same interpreter configuration
    return r


def _reproduces(eng_name: str, v: dict) -> bool:
    eng = importlib.import_module(eng_name)
    return any(x["class"] == v["class"] for x in eng.replay(v["workload"]))


def _minimise(eng_name: str, v: dict) -> dict:
    eng = importlib.import_module(eng_name)
    return eng.minimise(v)


# ----------------------------------------------------------------------------
# known findings


def load_known() -> list:
    p = Path(os.environ.get("VERIF_KNOWN_FINDINGS") or (VERIF_ROOT / "known_findings.json"))   # env: protocol self-test only
    if not p.exists():
        return []
    data = json.loads(p.read_text())
    return [e for e in data.get("findings", []) if e.get("status", "open") == "open"]


def match_known(known: list, prop: str, v: dict):
    for e in known:
        if e["property"] == prop and fnmatch.fnmatchcase(v["signature"], e["signature"]):
            return e
    return None


# ----------------------------------------------------------------------------


def write_replay(prop: str, eng_name: str, seed: int, v: dict) -> Path:
    d = Path(os.environ.get("VERIF_REPLAY_DIR") or (VERIF_ROOT / "replays")) / prop
    d.mkdir(parents=True, exist_ok=True)
    body = {
        "property": prop,
        "engine": eng_name,
        "class": v["class"],
        "signature": v["signature"],
        "message": v.get("message", ""),
        "seed": seed,
        "run": v.get("run"),
        "minimised": v.get("minimised", False),
        "workload": v["workload"],
    }
    name = f"{v['class']}-{digest([v['signature'], v['workload']])}.json"
    p = d / name
    p.write_text(json.dumps(body, indent=1, sort_keys=True, default=str))
    return p


def write_evidence(eng, tier: str, seed: int, merged: Merged, wall: float, nviol: int, extra: dict) -> Path:
    cov = {
        "evaluations": merged.evals,
        "distinct_nontrivial": len(merged.distinct),
        "rule": eng.RULE,
        "samples": merged.samples[:4],
        "runs": merged.runs,
        "runs_per_hour": int(merged.runs * 3600 / max(wall, 1e-6)),
        "faults_fired": dict(sorted(merged.faults.items())),
        "reach_probes": dict(sorted((str(k), v) for k, v in merged.probes.items())),
        "stats": dict(sorted(merged.stats.items())),
        "components": eng.COMPONENTS,
        "repo_tree_digest": repo_tree_digest(),
        "repo_root": str(repo_root()),
        "exhaustive": False,
    }
    if merged.states:
        cov["states"] = len(merged.states)
    if merged.sim_time:
        cov["simulated_time_units"] = merged.sim_time
    cov.update(extra)
    ev = {
        "property_id": eng.PROPERTY,
        "tier": tier,
        "seed": seed,
        "level": eng.LEVEL,
        "coverage": cov,
        "assumptions": eng.ASSUMPTIONS,
        "wall_s": round(wall, 2),
        "violations": nviol,
    }
    d = Path(os.environ.get("VERIF_EVIDENCE_DIR") or (VERIF_ROOT / "evidence"))
    d.mkdir(parents=True, exist_ok=True)
    p = d / f"{eng.PROPERTY}.json"
    p.write_text(json.dumps(ev, indent=1, default=str))
    return p


def _fresh_cmd(prop: str, seed: int, tier: str, indices, hashseed: int):
    env = dict(os.environ)
    env["PYTHONHASHSEED"] = str(hashseed)
    env["VERIF_SEED"] = str(seed)
    env["VERIF_INNER"] = "1"
    cmd = [sys.executable, "-c", "from simfcp.kit.driver import main; main()", prop, "--tier", tier,
           "--digests", ",".join(map(str, indices))]
    return subprocess.Popen(cmd, env=env, cwd=str(VERIF_ROOT), stdout=subprocess.PIPE, stderr=subprocess.PIPE, text=True)


def determinism_selftest(eng, eng_name: str, prop: str, seed: int, tier: str, merged: Merged, k: int, nproc: int) -> dict:
    """Re-execute a seeded sample of runs (a) alone in a fresh fork of this process (no chunk history,
    different worker) and (b) in fresh interpreters under other PYTHONHASHSEED values; all digests must agree."""
    idx = sorted(merged.digests)
    if not idx:
        return {"checked": 0}
    rng = random.Random(H(seed, prop, "selftest"))
    sample = sorted(rng.sample(idx, min(k, len(idx))))
    procs = []
    for n, i in enumerate(sample):
        hs = 1 + H(seed, prop, "hashseed", n) % 4000000000
        procs.append((i, hs, _fresh_cmd(prop, seed, tier, [i], hs)))
    again = Merged()
    run_pool(eng_name, seed, tier, [[i] for i in reversed(sample)], nproc, 3600, 900, again)
    if again.harness_errors:
        raise HarnessError("self-test rerun failed: " + "; ".join(str(x)[-800:] for x in again.harness_errors[:2]))
    fresh = {}
    for i, hs, p in procs:
        try:
            out, err = p.communicate(timeout=1200)
        except subprocess.TimeoutExpired:
            p.kill()
            raise HarnessError(f"fresh-interpreter rerun of run {i} timed out")
        if p.returncode != 0:
            raise HarnessError(f"fresh-interpreter rerun of run {i} failed ({p.returncode}): {err[-1500:]}")
        line = [l for l in out.splitlines() if l.startswith("DIGESTS ")][-1]
        fresh.update({int(a): b for a, b in json.loads(line[8:]).items()})
    bad = [i for i in sample if not (merged.digests[i] == again.digests.get(i) == fresh.get(i))]
    if bad:
        raise HarnessError(
            f"non-determinism: runs {bad[:8]} gave different digests on re-execution "
            f"(batch / alone-in-fresh-fork / fresh-interpreter-other-hashseed: "
            f"{[(merged.digests[i], again.digests.get(i), fresh.get(i)) for i in bad[:3]]})")
    return {"checked": len(sample), "runs": sample, "fresh_interpreter_hashseeds": [hs for _, hs, _ in procs], "mismatches": 0}


def main(argv=None) -> None:
    argv = list(sys.argv[1:] if argv is None else argv)
    if not argv:
        print("usage: check <property-id> [--tier quick|thorough] [--replay file]")
        sys.exit(2)
    prop = argv.pop(0)
    tier = os.environ.get("VERIF_TIER", "quick")
    replay = None
    digests_for = None
    run_one_idx = None
    while argv:
        a = argv.pop(0)
        if a == "--tier":
            tier = argv.pop(0)
        elif a == "--replay":
            replay = argv.pop(0)
        elif a == "--digests":
            digests_for = [int(x) for x in argv.pop(0).split(",") if x]
        elif a == "--run-one":
            run_one_idx = int(argv.pop(0))
        else:
            print(f"unknown argument {a}")
            sys.exit(2)
    if tier not in ("quick", "thorough"):
        tier = "quick"
    if prop not in ENGINES:
        print(f"HARNESS-ERROR no engine for {prop}")
        sys.exit(EXIT_HARNESS)
    try:
        seed = int(os.environ.get("VERIF_SEED", DEFAULT_SEED))
    except ValueError:
        seed = DEFAULT_SEED
    eng_name = ENGINES[prop]
    try:
        eng = importlib.import_module(eng_name)
        if run_one_idx is not None:
            import base64
            if hasattr(eng, "preload"):
                eng.preload()
            r = eng.run_one(seed, run_one_idx, tier)
            print("RUNRESULT " + base64.b64encode(pickle.dumps(r)).decode())
            sys.exit(0)
        if digests_for is not None:
            if hasattr(eng, "preload"):
                eng.preload()
            out = {}
            for i in reversed(digests_for):
                out[i] = (isolated_run(eng, eng_name, seed, i, tier, 900) if getattr(eng, "ISOLATE_RUNS", False)
                          else eng.run_one(seed, i, tier))["digest"]
            print("DIGESTS " + json.dumps(out))
            sys.exit(0)
        if replay is not None:
            sys.exit(do_replay(eng, prop, replay))
        sys.exit(do_batch(eng, eng_name, prop, tier, seed))
    except HarnessError as e:
        print(f"HARNESS-ERROR property={prop} {e}")
        sys.exit(EXIT_HARNESS)
    except SystemExit:
        raise
    except BaseException:
        print(f"HARNESS-ERROR property={prop} unexpected exception in the harness:\n{traceback.format_exc()}")
        sys.exit(EXIT_HARNESS)


def do_replay(eng, prop: str, path: str) -> int:
    body = json.loads(Path(path).read_text())
    if body.get("property") != prop:
        raise HarnessError(f"replay file is for {body.get('property')}, not {prop}")
    if body["workload"].get("interpreter") == "python -O" and not sys.flags.optimize:
        # recorded under `python -O`: replay under the same interpreter configuration
        p = subprocess.run([sys.executable, "-O", "-c", "from simfcp.kit.driver import main; main()", prop, "--replay", path],
                           cwd=str(VERIF_ROOT))
        return p.returncode
    vs = eng.replay(body["workload"])
    same = [v for v in vs if v["class"] == body["class"]]
    print(f"replay of {path}: seed={body.get('seed')} run={body.get('run')} class={body['class']}")
    for v in vs:
        print(f"  observed: class={v['class']} signature={v['signature']} :: {v.get('message', '')[:300]}")
    if same:
        print(f"VIOLATION property={prop} replay={path}")
        return EXIT_VIOLATION
    print("replay did not reproduce the recorded violation class on this tree")
    return EXIT_OK


def do_batch(eng, eng_name: str, prop: str, tier: str, seed: int) -> int:
    t0 = time.monotonic()
    cfg = eng.TIERS[tier]
    nproc = int(os.environ.get("VERIF_NPROC", min(16, os.cpu_count() or 1)))
    runs = int(os.environ.get("VERIF_RUNS", cfg["runs"]))
    chunk = cfg["chunk"]
    chunks = [list(range(a, min(a + chunk, runs))) for a in range(0, runs, chunk)]
    print(f"[{prop}] engine={eng_name} tier={tier} VERIF_SEED={seed} runs={runs} chunk={chunk} nproc={nproc} "
          f"repo={repo_root()}", flush=True)
    merged = Merged()
    if hasattr(eng, "preload"):
        eng.preload()          # import the code under test once, in the parent: forks start from "freshly imported"
    if hasattr(eng, "prepare"):
        eng.prepare(seed, tier)
    pool = run_pool(eng_name, seed, tier, chunks, nproc, cfg["wall"], cfg.get("chunk_timeout", 600), merged)
    if merged.harness_errors:
        if not merged.violations:
            raise HarnessError("; ".join(str(x)[-1500:] for x in merged.harness_errors[:3]))
        # some runs could not be judged AND others found violations: each violation carries its own explicit workload
        # and is re-checked by replay, so they are reported (exit 1) rather than hidden behind exit 3
        print(f"  warning: {len(merged.harness_errors)} run(s) could not be judged: " + str(merged.harness_errors[0])[-300:].replace("\n", " "))
        merged.harness_errors = []
    if merged.runs == 0:
        raise HarnessError("no run completed")
    extra = {"pool": pool}
    if hasattr(eng, "finish"):
        extra.update(eng.finish(merged, seed, tier) or {})
        if merged.harness_errors:
            raise HarnessError("; ".join(str(x)[-1500:] for x in merged.harness_errors[:3]))
    try:
        extra["determinism_selftest"] = determinism_selftest(eng, eng_name, prop, seed, tier, merged, cfg.get("selftest", 8), nproc)
    except HarnessError as e:
        if not merged.violations:
            raise
        # Violations were found AND re-execution disagrees: state of the code under test is leaking from one run
        # into the next inside a worker process. Every reported violation carries its own explicit workload and is
        # re-checked by the minimiser / replay, so report them rather than hiding them behind a harness error.
        print(f"  warning: {e}")
        extra["determinism_selftest"] = {"mismatch_while_violations_present": str(e)[:500]}

    # group violations
    groups = {}
    for v in sorted(merged.violations, key=lambda v: (v.get("run", 0), v["class"], v["signature"])):
        groups.setdefault((v["class"], v["signature"]), []).append(v)
    known = load_known()
    unknown = 0
    reported = 0
    seen_known = set()
    for (cls, sig), vs in sorted(groups.items()):
        v = vs[0]
        k = match_known(known, prop, v)
        if k is not None:
            if k["signature"] not in seen_known:
                seen_known.add(k["signature"])
                print(f"KNOWN-FINDING: property={prop} {k['what']} [signature {k['signature']}, seen in {len(vs)} run(s)]")
            continue
        unknown += 1
        if reported >= 12:
            continue
        reported += 1
        # prefer a witness that reproduces from its own explicit workload in a pristine process
        chosen = None
        nruns = len(vs)
        if v["workload"].get("interpreter") == "python -O":
            chosen = v              # observed under python -O; the witness search below runs in this (non -O) interpreter
            vs = []
        for cand in vs[:5]:
            try:
                if in_fork(_reproduces, eng_name, cand, timeout=300):
                    chosen = cand
                    break
            except HarnessError:
                pass
        if chosen is None:
            print(f"  note: class={cls} was observed in {len(vs)} run(s) but none of the first {min(5, len(vs))} witnesses "
                  f"reproduces from its own workload in a fresh process (it depends on what the worker process ran before); "
                  f"the replay file carries the first witness unminimised")
        else:
            v = chosen
            if hasattr(eng, "minimise") and v["workload"].get("interpreter") != "python -O":
                try:
                    v = in_fork(_minimise, eng_name, v, timeout=240)
                except HarnessError as e:
                    print(f"  (minimiser failed, reporting unminimised: {str(e)[-300:]})")
        p = write_replay(prop, eng_name, seed, v)
        print(f"  violation class={cls} signature={sig} runs={nruns} first_run={v.get('run')} :: {v.get('message', '')[:400]}")
        print(f"VIOLATION property={prop} replay={p}")
    zero = [k for k in getattr(eng, "EXPECTED_PROBES", {}).get(tier, ()) if merged.probes.get(k, 0) == 0]
    if zero:
        print(f"  warning: reach probes stuck at zero: {zero}")
        extra["probes_at_zero"] = zero
    extra["violation_classes"] = sorted({c for c, _ in groups})
    extra["known_findings_seen"] = sorted(seen_known)
    wall = time.monotonic() - t0
    write_evidence(eng, tier, seed, merged, wall, unknown, extra)
    print(f"[{prop}] runs={merged.runs} evaluations={merged.evals} distinct_nontrivial={len(merged.distinct)} "
          f"faults={dict(sorted(merged.faults.items()))} violations={unknown} known={len(seen_known)} wall={wall:.1f}s")
    return EXIT_VIOLATION if unknown else EXIT_OK
