"""layoutsim — C04: histories of generate() calls on long-lived PackedEncoders.

Real code: fcp.parser (tree from generated source text), fcp.encoding entirely.
Stub: nothing (no I/O).  The simulator owns the *history*: which binding is laid
out next on which long-lived encoder, when an encoder is thrown away, and which
calls raise in between.
"""

from __future__ import annotations

import copy
from collections import Counter

from .kit import pristine, H, Trace, setup_repo_path, short, stream, weighted
from .gen import schema as S

PROPERTY = "C04"
ENGINE = "layoutsim"
LEVEL = "exploration"
RULE = ("one run = one seeded fixed-size schema (1-6 structs, nesting <= 3, u/i 1..64, f32/f64, enums of every width class "
        "1..16, arrays of scalars/enums/structs/arrays, field ids not in declaration order, 2-6 bindings incl. renamed ones "
        "and signal blocks) and a seeded history of 12-60 generate() calls on two long-lived encoders (unrolling on/off) with "
        "re-layouts, raising calls and encoder replacement; evaluations = generate() calls judged against the reference "
        "layout; distinct_nontrivial counts distinct (schema shape signature, binding, reuse distance class, previous-call "
        "class) tuples for calls made on an encoder that had already laid out something else and whose struct has an enum, "
        "array or nested leaf")
COMPONENTS = {
    "real": ["fcp.parser.get_fcp_from_string", "fcp.encoding.make_encoder / PackedEncoder / Value"],
    "stub": ["none: there is no I/O; the simulator only schedules the call history"],
}
ASSUMPTIONS = [
    "the reference layout is computed from the schema description by 40 lines written from the property text",
    "non-unrolled arrays of structs and variable-size fields are documented as unsupported: a raise there is counted, not judged (C14)",
    "for unrolled array elements only absence of foreign options is asserted (whether a block on d reaches d_0 is not fixed by the property)",
]
TIERS = {
    "quick": {"runs": 9000, "chunk": 125, "wall": 100, "chunk_timeout": 400, "selftest": 10},
    "thorough": {"runs": 160000, "chunk": 400, "wall": 800, "chunk_timeout": 900, "selftest": 16},
}
ISOLATE_RUNS = True
OPTIMIZE_SHARE = 0.004     # this share of the runs executes under `python -O` (asserts compiled away)


def preload():
    setup_repo_path()
    import importlib
    for m in ("fcp.parser", "fcp.error", "fcp.encoding"):
        importlib.import_module(m)


EXPECTED_PROBES = {t: ["enum_width_3", "enum_width_5_7", "enum_width_9_16", "raise_then_layout", "relayout_same",
                       "options_then_plain_binding", "nested_array", "array_of_struct_unrolled", "ids_out_of_order",
                       "same_field_name_in_two_structs_with_block", "sibling_named_like_array_element", "tree_field_lists_permuted", "sibling_differs_in_case", "enum_width_49_64"] for t in TIERS}

OPT_KEYS = ("endianess", "mux_signal", "mux_count")


# ---------------------------------------------------------------------------
# workload generation


def gen_schema(rng):
    decls = []
    enums = []
    for ei in range(weighted(rng, [(0, 1), (1, 3), (2, 3), (3, 2)])):
        b = weighted(rng, [(1, 2), (2, 2), (3, 4), (4, 2), (5, 3), (6, 2), (7, 3), (8, 2)] + [(k, 0.6) for k in range(9, 17)]
                     + [(k, 0.12) for k in range(17, 65)])          # every width class up to 64 bits
        mx = rng.choice([0, 1]) if b == 1 else rng.choice([1 << (b - 1), (1 << b) - 1, rng.randint(1 << (b - 1), (1 << b) - 1)])
        n = rng.randint(1, 4)
        vals = {mx}
        while len(vals) < min(n, mx + 1):
            vals.add(rng.randint(0, mx))
        vals = sorted(vals)
        rng.shuffle(vals)
        names = rng.sample(S.ENUMERATORS, len(vals))
        name = f"En{S.PASCAL[ei * 3 % len(S.PASCAL)]}{ei}"
        decls.append({"kind": "enum", "name": name, "values": [[a, v] for a, v in zip(names, vals)]})
        enums.append(name)
    ns = weighted(rng, [(1, 2), (2, 3), (3, 3), (4, 2), (5, 1), (6, 1)])
    structs = []   # (name, depth)
    pool = rng.sample(S.WORDS, 9)   # small pool so names repeat across structs
    for si in range(ns):
        nf = rng.randint(1, 5)
        fnames = rng.sample(pool, nf)
        ids = rng.sample(range(0, 2 * nf + 2), nf)
        if rng.random() < 0.1:
            # legal but unusual ids: negative, or beyond 32 bits (the order is still "ascending field id")
            ids = rng.sample([-3, -1, 0, 1, 2, 7, 255, 65536, (1 << 32) - 1, 1 << 32, (1 << 32) + 5, 1 << 40], nf)
        depth_here = 1
        fields = []
        for fi in range(nf):
            def scalar():
                k = weighted(rng, [("int", 6), ("float", 1), ("enum", 4 if enums else 0)])
                if k == "int":
                    return [rng.choice("ui"), weighted(rng, [(8, 2), (16, 1), (1, 1), (rng.randint(1, 64), 5)])]
                if k == "float":
                    return [rng.choice(["f32", "f64"])]
                return ["enum", rng.choice(enums)]

            def anytype(d):
                nonlocal depth_here
                k = weighted(rng, [("scalar", 6), ("arr", 2 if d < 3 else 0),
                                   ("struct", 2.5 if [s for s in structs if s[1] < 3] else 0)])
                if k == "scalar":
                    return scalar()
                if k == "arr":
                    return ["arr", anytype(d + 1), rng.randint(1, 3)]
                cand = [s for s in structs if s[1] < 3]
                s = rng.choice(cand)
                depth_here = max(depth_here, s[1] + 1)
                return ["struct", s[0]]

            f = {"name": fnames[fi], "id": ids[fi], "type": anytype(1)}
            if rng.random() < 0.2:
                f["unit"] = rng.choice(["C", "V", "rpm", "%"])
            fields.append(f)
        # a sibling whose name is another SCALAR field's name plus _<digit> (it looks like an unrolled array element but is
        # a differently named field: options declared for X must not reach X_1). Never next to an array called X: there
        # X_1 would collide with the unrolled element, which is the naming scheme's own ambiguity, not judged here.
        scal = [f for f in fields if f["type"][0] in ("u", "i", "f32", "f64", "enum")]
        if scal and rng.random() < 0.3:
            base_f = rng.choice(scal)
            fields.append({"name": f"{base_f['name']}_{rng.randint(0, 2)}", "id": max(f["id"] for f in fields) + 1 + rng.randint(0, 2),
                           "type": [rng.choice("ui"), rng.randint(1, 16)]})
            rng.shuffle(fields)
        if rng.random() < 0.2:
            # a sibling whose name differs from another field's only in case (speed / Speed): a differently named field
            base_f = rng.choice(fields)
            variant = base_f["name"].capitalize() if rng.random() < 0.6 else base_f["name"].upper()
            if variant not in [f["name"] for f in fields]:
                fields.append({"name": variant, "id": max(f["id"] for f in fields) + 1 + rng.randint(0, 2),
                               "type": [rng.choice("ui"), rng.randint(1, 16)]})
                rng.shuffle(fields)
        name = f"Msg{S.PASCAL[(si * 7 + 3) % len(S.PASCAL)]}{si}"
        decls.append({"kind": "struct", "name": name, "fields": fields})
        structs.append((name, depth_here))
    # bindings
    _, sidx = S.index(decls)

    def all_field_names(sname, acc):
        for f in sidx[sname]["fields"]:
            acc.append(f["name"])
            t = f["type"]
            while t[0] == "arr":
                t = t[1]
            if t[0] == "struct":
                all_field_names(t[1], acc)
        return acc

    nb = rng.randint(2, 6)
    used = set()
    canid = 10
    for bi in range(nb):
        sname = rng.choice(structs)[0]
        proto = weighted(rng, [("can", 5), ("lin", 2), ("uart", 1)])
        alias = sname if rng.random() < 0.6 else f"{sname}V{bi}"
        if (alias, proto) in used:
            alias = f"{sname}V{bi}"
        used.add((alias, proto))
        names = sorted(set(all_field_names(sname, [])))
        sigs = []
        if rng.random() < 0.7:
            for fname in rng.sample(names, min(len(names), rng.randint(1, 3))):
                fl = []
                if rng.random() < 0.7:
                    fl.append(["endianess", rng.choice(["big", "big", "little"])])
                if rng.random() < 0.5:
                    fl.append(["mux_signal", rng.choice(names)])
                    fl.append(["mux_count", rng.randint(2, 16)])
                if not fl:
                    fl.append(["endianess", "big"])
                sigs.append({"name": fname, "fields": fl})
            if rng.random() < 0.25:
                # a block naming a field that only exists in *another* struct
                other = [w for w in pool if w not in names]
                if other:
                    sigs.append({"name": rng.choice(other), "fields": [["endianess", "big"]]})
        extra = []
        if rng.random() < 0.08:
            # binding-level extension fields that merely share the NAME of a per-signal option: they are declared for
            # no field, so no leaf may carry them
            extra = [[k, v] for k, v in (("endianess", "big"), ("mux_count", rng.randint(2, 9)), ("mux_signal", rng.choice(names)))
                     if rng.random() < 0.6] or [["endianess", "big"]]
        decls.append({"kind": "impl", "protocol": proto, "type": sname, "name": alias,
                      "fields": [["id", canid + bi]] + ([["device", "ecu"]] if rng.random() < 0.5 else []) + extra,
                      "signals": sigs})
    return decls


def gen_ops(rng, nb):
    n = rng.randint(12, 60)
    ops = []
    cs = weighted(rng, [(0, 6), (1, 2), (2, 2)])
    if cs:
        # how the encoders' contexts are made: 1 = every context derived from ONE shared base context object,
        # 2 = each derived from the context the previously made encoder holds (ctx_b = ctx_a.with_unroll_arrays(..))
        ops.append(["ctx", cs])
    if rng.random() < 0.2:
        # hammer: the same binding laid out many times in a row on one encoder (if it raises, that is 10-45 failed calls)
        enc, bi = rng.choice("UN"), rng.randrange(nb)
        ops += [["layout", enc, bi]] * rng.randint(10, 45)
    for _ in range(n):
        enc = rng.choice("UN")
        k = weighted(rng, [("layout", 8), ("again", 2), ("fresh", 1)])
        if k == "fresh":
            ops.append(["fresh", enc])
        elif k == "again" and ops and ops[-1][0] == "layout":
            ops.append(["layout", rng.choice([enc, ops[-1][1]]), ops[-1][2]])
        else:
            ops.append(["layout", enc, rng.randrange(nb)])
    return ops


# ---------------------------------------------------------------------------
# system


class System:
    def __init__(self, decls, field_order_seed=None):
        setup_repo_path()
        from fcp.parser import get_fcp_from_string
        from fcp.error import Logger
        import fcp.encoding as E
        self.E = E
        self.decls = decls
        self.src = S.render(decls)
        r = get_fcp_from_string(self.src, Logger({}))
        if r.is_err():
            raise RuntimeError("generated schema rejected: " + repr(r.err()) + "\n" + self.src)
        self.fcp = r.unwrap()
        if field_order_seed is not None:
            # the tree as an API user may build it: the order of a struct's field LIST is free, the wire order is by id
            import random as _random
            fr = _random.Random(field_order_seed)
            for st in self.fcp.structs:
                fr.shuffle(st.fields)
        self.pristine = copy.deepcopy(self.fcp)
        self.enums, self.structs = S.index(decls)
        # bindings: the explicit impls, then the default impl of every struct
        self.bindings = []
        for d in decls:
            if d["kind"] == "impl":
                self.bindings.append((d["name"], d["protocol"], d["type"], d["signals"]))
        for d in decls:
            if d["kind"] == "struct":
                self.bindings.append((d["name"], "default", d["name"], []))
        self.impls = []
        for name, proto, typ, _ in self.bindings:
            m = [i for i in self.fcp.impls if i.name == name and i.protocol == proto and i.type == typ]
            if len(m) != 1:
                raise RuntimeError(f"binding {name}/{proto} not found exactly once in the parsed tree")
            self.impls.append(m[0])

    ctx_style = 0
    _base_ctx = None
    _last_ctx = None

    def new_encoder(self, unroll: bool):
        C = self.E.PackedEncoderContext
        if self.ctx_style == 1:
            if self._base_ctx is None:
                self._base_ctx = C()
            ctx = self._base_ctx.with_unroll_arrays(unroll)
        elif self.ctx_style == 2:
            ctx = (self._last_ctx if self._last_ctx is not None else C()).with_unroll_arrays(unroll)
            self._last_ctx = ctx
        else:
            ctx = C().with_unroll_arrays(unroll)
        return self.E.make_encoder("packed", self.fcp, ctx)

    def pristine_layout(self, bi: int, unroll: bool):
        """Layout of binding bi by a brand-new encoder on a brand-new copy of the tree as it was right after parsing
        (so that neither encoder state nor a tree mutated by earlier calls can hide a history dependence)."""
        t = copy.deepcopy(self.pristine)
        name, proto, typ, _ = self.bindings[bi]
        impl = [i for i in t.impls if i.name == name and i.protocol == proto and i.type == typ][0]
        enc = self.E.make_encoder("packed", t, self.E.PackedEncoderContext().with_unroll_arrays(unroll))
        return enc.generate(impl)


def snap(values):
    out = []
    for v in values:
        ed = v.extended_data
        out.append((v.name, v.bitstart, v.bitlength, v.endianess,
                    tuple(sorted((k, repr(x)) for k, x in ed.items())) if isinstance(ed, dict) else repr(ed)))
    return out


def leaf_kind(decls_idx, sname, origin_path):
    return "leaf"


def expected_supported(structs, sname, unroll):
    """False when the shape is one the encoder documents as unsupported (non-unrolled array of structs)."""
    def chk(t):
        if t[0] == "struct":
            return all(chk(f["type"]) for f in structs[t[1]]["fields"])
        if t[0] == "arr":
            if not unroll and S.contains_struct(t[1]):
                return False
            return chk(t[1])
        return True
    return chk(["struct", sname])


def classify_layout_diff(got, want, sysm, sname, unroll):
    gn = [g[0] for g in got]
    wn = [w[0] for w in want]
    if len(set(gn)) != len(gn):
        return "duplicate_names", f"leaf names are not unique: {gn}"
    if len(gn) != len(wn):
        return "leaf_names", f"{len(gn)} leaves {gn}, expected {len(wn)}: {wn}"
    # The property fixes WHICH leaf comes where, not how hierarchical names are spelled ("a::b", "a.b", "b[0]"...):
    # the k-th leaf must stand for the k-th field of the reference order, i.e. mention that field's declared name.
    own = [w[3] for w in want]
    if any(o not in g for o, g in zip(own, gn)):
        if sorted(gn) == sorted(wn) or all(any(o in g for g in gn) for o in own):
            return "field_id_order", f"order {gn} != ascending-id order {wn}"
        return "leaf_names", f"leaves {gn} do not stand for the fields {wn}"
    for g, w in zip(got, want):
        if g[2] != w[2]:
            kind = leaf_type_kind(sysm, sname, w[0], unroll)
            return f"width:{kind}", f"leaf {g[0]} has width {g[2]}, wire width is {w[2]}"
    for g, w in zip(got, want):
        if g[1] != w[1]:
            return "start", f"leaf {g[0]} starts at {g[1]}, expected {w[1]} (gap or overlap)"
    return None, ""


def leaf_type_kind(sysm, sname, leafname, unroll):
    """Type kind of a leaf, found by walking the description (for violation signatures only)."""
    found = []

    def walk(name, t, prefix):
        if t[0] == "struct":
            for f in sysm.structs[t[1]]["fields"]:
                walk(f["name"], f["type"], prefix + name + "::")
        elif t[0] == "arr" and unroll:
            for i in range(t[2]):
                walk(f"{name}_{i}", t[1], prefix)
        else:
            if prefix + name == leafname:
                found.append("array" if t[0] == "arr" else "enum" if t[0] == "enum" else "float" if t[0] in ("f32", "f64") else "int")

    for f in sysm.structs[sname]["fields"]:
        walk(f["name"], f["type"], "")
    return found[0] if found else "?"


def judge_options(values, want, signals, structs, sname, unroll):
    """Option isolation (clause 4). want rows: (name, start, width, own field name, array-derived?, field names on the path).

    A leaf may carry an option only if a signal block of this binding declares it for the leaf's own field, for the
    derived element name (x_0), or for a field it hangs under (an array or struct field on its hierarchical path: the
    weaker reading - whether a block on an outer field reaches the leaves below it is not fixed by the property).
    A scalar leaf must carry everything its own field's block declares."""
    blocks = {}
    for sb in signals:
        blocks.setdefault(sb["name"], dict((k, v) for k, v in sb["fields"]))
    out = []
    for v, w in zip(values, want):
        name, _, _, origin, is_array_leaf, path = w
        ed = v.extended_data if isinstance(v.extended_data, dict) else {}
        carried = {k: ed[k] for k in OPT_KEYS if k in ed}
        if v.endianess != "little":
            carried["endianess"] = v.endianess
        elif carried.get("endianess") == "little":
            carried.pop("endianess")      # "little" is the default: carrying it says nothing
        sources = [blocks[n] for n in [origin] + [n for n in reversed(path[:-1])] if n in blocks]
        # names an unrolled element may be looked up by: <field>_<i> for the leaf's own field and for every array field above it
        derived = [b for n, b in blocks.items() if any(n.startswith(q + "_") and n[len(q) + 1:].isdigit() for q in path)] if is_array_leaf else []
        for k, x in carried.items():
            if not any(k in b and b[k] == x for b in sources + derived):
                where = f"for {origin}" + (f" or the fields above it {path[:-1]}" if len(path) > 1 else "")
                out.append(("option_leak", f"leaf {name} carries {k}={x!r}, which no signal block of this binding declares {where}"))
                break
        else:
            own = blocks.get(origin)
            if own is not None and not is_array_leaf:
                exp = {k: own[k] for k in OPT_KEYS if k in own and not (k == "endianess" and own[k] == "little")}
                missing = {k: x for k, x in exp.items() if carried.get(k) != x}
                if missing:
                    out.append(("option_missing_or_wrong", f"leaf {name}: declared options {missing} are missing or different (carried {carried})"))
    return out


def want_rows(decls, sname, unroll):
    """ref_layout rows extended with an 'array-derived leaf' flag and the declared field names on the leaf's path."""
    rows = S.ref_layout(decls, sname, unroll)
    _, structs = S.index(decls)
    extra = []

    def walk(t, arr, path):
        if t[0] == "struct":
            for f in sorted(structs[t[1]]["fields"], key=lambda f: f["id"]):
                walk(f["type"], arr, path + [f["name"]])
        elif t[0] == "arr" and unroll:
            for _ in range(t[2]):
                walk(t[1], True, path)
        else:
            extra.append((arr or t[0] == "arr", path))

    for f in sorted(structs[sname]["fields"], key=lambda f: f["id"]):
        walk(f["type"], False, [f["name"]])
    return [(r[0], r[1], r[2], r[3], a, pth) for r, (a, pth) in zip(rows, extra)]


def execute(decls, ops, probes=None, tr=None, distinct=None, shape=None, field_order_seed=None):
    """Run one history. Returns (violations[(class, detail, msg, opindex)], evals)."""
    probes = probes if probes is not None else Counter()
    sysm = System(decls, field_order_seed)
    if field_order_seed is not None:
        probes["tree_field_lists_permuted"] += 1
    for op in ops:
        if op[0] == "ctx":
            sysm.ctx_style = op[1]
            probes[f"context_derivation_style_{op[1]}"] += 1
    enc = {"U": sysm.new_encoder(True), "N": sysm.new_encoder(False)}
    prev = {"U": None, "N": None}          # (binding index, outcome) of the previous call on that encoder
    since_fresh = {"U": 0, "N": 0}
    history = []                            # (values list object, snapshot)
    viol = []
    evals = 0
    for oi, op in enumerate(ops):
        if op[0] == "ctx":
            continue
        if op[0] == "fresh":
            e = op[1]
            enc[e] = sysm.new_encoder(e == "U")
            prev[e] = None
            since_fresh[e] = 0
            continue
        _, e, bi = op
        bi %= len(sysm.bindings)
        name, proto, sname, signals = sysm.bindings[bi]
        unroll = e == "U"
        supported = expected_supported(sysm.structs, sname, unroll)
        try:
            got_vals = enc[e].generate(sysm.impls[bi])
            raised = None
        except Exception as ex:
            got_vals = None
            raised = f"{type(ex).__name__}: {ex}"
        evals += 1
        if tr is not None:
            tr.add("layout", enc=e, binding=bi, raised=raised, out=snap(got_vals) if got_vals is not None else None)
        if not supported:
            probes["unsupported_shape"] += 1
            if raised is None:
                probes["unsupported_shape_did_not_raise"] += 1
            prev[e] = (bi, "raised" if raised else "ok")
            since_fresh[e] += 1
            continue
        if raised is not None:
            viol.append(("raised", "supported_shape", f"op {oi}: generate({name}/{proto}) on encoder {e} raised {raised}", oi))
            prev[e] = (bi, "raised")
            continue
        want = want_rows(decls, sname, unroll)
        got = snap(got_vals)
        # probes
        if prev[e] is not None:
            if prev[e][1] == "raised":
                probes["raise_then_layout"] += 1
            if prev[e][0] == bi:
                probes["relayout_same"] += 1
            if sysm.bindings[prev[e][0]][3] and not signals:
                probes["options_then_plain_binding"] += 1
        for w in want:
            k = leaf_type_kind(sysm, sname, w[0], unroll) if False else None
        # 1. reference layout
        cls, msg = classify_layout_diff(got, want, sysm, sname, unroll)
        if cls:
            viol.append(("wrong_layout", cls, f"op {oi}: {name}/{proto} unroll={unroll}: {msg}", oi))
        # 2. history independence
        fresh_vals = sysm.pristine_layout(bi, unroll)
        if snap(fresh_vals) != got:
            d = [(a, b) for a, b in zip(got, snap(fresh_vals)) if a != b][:2]
            viol.append(("history_dependence", "vs_fresh_encoder",
                         f"op {oi}: {name}/{proto} on the reused encoder {e} differs from a brand-new encoder on a freshly parsed tree: {d} "
                         f"(lengths {len(got)}/{len(fresh_vals)})", oi))
        # 4. option isolation
        if not cls:
            for c, m in judge_options(got_vals, want, signals, sysm.structs, sname, unroll)[:1]:
                viol.append((c, "options", f"op {oi}: {name}/{proto} unroll={unroll}: {m}", oi))
        # 3. no retroactive change of earlier results
        for hi, (obj, sn) in enumerate(history):
            if snap(obj) != sn:
                viol.append(("retroactive_change", "earlier_result_mutated",
                             f"op {oi}: the list returned by layout #{hi} changed afterwards: {sn[:2]} -> {snap(obj)[:2]}", oi))
                break
        history.append((got_vals, got))
        if distinct is not None and prev[e] is not None and prev[e][0] != bi:
            nontrivial = any(w[4] or "::" in w[0] for w in want) or any(
                leaf_type_kind(sysm, sname, w[0], unroll) == "enum" for w in want)
            if nontrivial:
                rd = since_fresh[e]
                distinct.add(short([shape, bi, min(rd, 4), prev[e][1], bool(sysm.bindings[prev[e][0]][3]), unroll]))
        prev[e] = (bi, "ok")
        since_fresh[e] += 1
        if viol:
            break
    return viol, evals


def shape_sig(decls):
    _, structs = S.index(decls)
    enums, _ = S.index(decls)

    def ts(t):
        if t[0] in ("u", "i"):
            return "n"
        if t[0] in ("f32", "f64"):
            return "f"
        if t[0] == "enum":
            return "e%d" % S.enum_bits(max(v for _, v in enums[t[1]]["values"]))
        if t[0] == "arr":
            return "[" + ts(t[1]) + "]"
        return "{" + ",".join(ts(f["type"]) for f in sorted(structs[t[1]]["fields"], key=lambda f: f["id"])) + "}"

    return [ts(["struct", d["name"]]) for d in decls if d["kind"] == "struct"]


def schema_probes(decls, probes):
    enums, structs = S.index(decls)
    for e in enums.values():
        b = S.enum_bits(max(v for _, v in e["values"]))
        if b == 3:
            probes["enum_width_3"] += 1
        elif 5 <= b <= 7:
            probes["enum_width_5_7"] += 1
        elif 9 <= b <= 16:
            probes["enum_width_9_16"] += 1
        elif b >= 49:
            probes["enum_width_49_64"] += 1
    names = Counter()
    for s in structs.values():
        ids = [f["id"] for f in s["fields"]]
        if ids != sorted(ids):
            probes["ids_out_of_order"] += 1
        for f in s["fields"]:
            names[f["name"]] += 1
            if f["name"][-2:-1] == "_" and f["name"][-1].isdigit():
                probes["sibling_named_like_array_element"] += 1
            if f["name"] != f["name"].lower() and f["name"].lower() in [g["name"] for g in s["fields"]]:
                probes["sibling_differs_in_case"] += 1
            t = f["type"]
            if t[0] == "arr" and t[1][0] == "arr":
                probes["nested_array"] += 1
            if t[0] == "arr" and S.contains_struct(t[1]):
                probes["array_of_struct_unrolled"] += 1
    for d in decls:
        if d["kind"] == "impl":
            for sb in d["signals"]:
                if names[sb["name"]] >= 2:
                    probes["same_field_name_in_two_structs_with_block"] += 1


def mk_violation(v, decls, ops, run=None, field_order_seed=None):
    cls, detail, msg, oi = v
    return {"class": cls, "signature": f"C04:{cls}:{detail}", "message": msg, "run": run,
            "workload": {"decls": decls, "ops": ops[:oi + 1], "field_order_seed": field_order_seed}}


def run_one(seed: int, index: int, tier: str) -> dict:
    run_seed = H(seed, PROPERTY, index)
    tr = Trace()
    probes = Counter()
    distinct = set()
    res = {"index": index, "violations": [], "evals": 0, "harness_errors": []}
    decls = gen_schema(stream(run_seed, "schema"))
    nb = sum(1 for d in decls if d["kind"] in ("impl", "struct"))
    ops = gen_ops(stream(run_seed, "ops"), nb)
    schema_probes(decls, probes)
    rsw = stream(run_seed, "swarm")
    fos = rsw.randrange(1, 1 << 30) if rsw.random() < 0.3 else None
    try:
        viol, evals = execute(decls, ops, probes, tr, distinct, shape_sig(decls), fos)
    except RuntimeError as e:
        res["harness_errors"].append(f"run {index}: {e}")
        res["digest"] = "x"
        return res
    res["evals"] = evals
    for v in viol[:3]:
        res["violations"].append(mk_violation(v, decls, ops, index, fos))
    res["digest"] = tr.digest()
    res["probes"] = probes
    res["faults"] = Counter({"encoder_replaced": sum(1 for o in ops if o[0] == "fresh"),
                             "call_that_raises": probes.get("unsupported_shape", 0)})
    res["distinct"] = distinct
    res["sample"] = {"schema": S.render(decls), "ops": ops[:10]} if index % 400 == 0 else None
    return res


def check_workload(w):
    viol, _ = execute(w["decls"], w["ops"], field_order_seed=w.get("field_order_seed"))
    return [mk_violation(v, w["decls"], w["ops"], None, w.get("field_order_seed")) for v in viol]


def replay(workload):
    return check_workload(workload)


def minimise(v):
    from .kit.ddmin import ddmin
    w = v["workload"]
    key = (v["class"], v["signature"])

    def fails_ops(ops):
        return any((x["class"], x["signature"]) == key for x in pristine(check_workload, {"decls": w["decls"], "ops": ops, "field_order_seed": w.get("field_order_seed")}))

    ops = ddmin(list(w["ops"]), fails_ops, 200) if len(w["ops"]) > 1 else w["ops"]

    # drop declarations nothing needs (binding indices shift, so ops are re-targeted by binding identity)
    decls = list(w["decls"])

    def bindings_of(ds):
        return [(d["name"], d["protocol"]) for d in ds if d["kind"] == "impl"] + \
               [(d["name"], "default") for d in ds if d["kind"] == "struct"]

    def retarget(ops_, old, new):
        ob, nb = bindings_of(old), bindings_of(new)
        out = []
        for o in ops_:
            if o[0] in ("fresh", "ctx"):
                out.append(o)
                continue
            b = ob[o[2] % len(ob)]
            if b not in nb:
                return None
            out.append([o[0], o[1], nb.index(b)])
        return out

    changed = True
    while changed:
        changed = False
        for i in range(len(decls) - 1, -1, -1):
            cand = decls[:i] + decls[i + 1:]
            rops = retarget(ops, decls, cand)
            if rops is None or not any(d["kind"] == "struct" for d in cand):
                continue
            try:
                ok = any((x["class"], x["signature"]) == key for x in pristine(check_workload, {"decls": cand, "ops": rops, "field_order_seed": w.get("field_order_seed")}))
            except Exception:
                ok = False
            if ok:
                decls, ops = cand, rops
                changed = True
                break
    out = dict(v, workload={"decls": decls, "ops": ops, "field_order_seed": w.get("field_order_seed")}, minimised=True)
    vs = [x for x in pristine(check_workload, out["workload"]) if (x["class"], x["signature"]) == key]
    if vs:
        out["message"] = vs[0]["message"]
        return out
    return v
