"""Shared by parsesim11 (C11) and parsesim20 (C20): seeded module trees on a private disk,
a tokenizer for fault placement, the real parser entry points and diagnostic inspection."""

from __future__ import annotations

import os
import re
import signal
from pathlib import Path

from .kit import setup_repo_path, weighted
from .gen import schema as S

MODWORDS = ["common", "types", "power", "drive", "sensors", "bus", "diag", "ctl", "hv", "lv", "base", "shared"]


# ---------------------------------------------------------------------------
# declaration generator (all declaration kinds, declare-before-use)


class Names:
    def __init__(self, rng):
        self.rng = rng
        self.n = 0

    def struct(self):
        self.n += 1
        return f"Rec{self.rng.choice(S.PASCAL)}{self.n}"

    def enum(self):
        self.n += 1
        return f"En{self.rng.choice(S.PASCAL)}{self.n}"

    def service(self):
        self.n += 1
        return f"Svc{self.rng.choice(S.PASCAL)}{self.n}"

    def device(self):
        self.n += 1
        return f"node_{self.rng.choice(S.WORDS)}{self.n}"


def gen_type(rng, vis_structs, vis_enums, depth=1):
    opts = [("int", 6), ("float", 1.5), ("str", 1.5)]
    if vis_enums:
        opts.append(("enum", 3))
    if vis_structs:
        opts.append(("struct", 3))
    if depth < 3:
        opts += [("arr", 1.5), ("dyn", 1), ("opt", 1)]
    k = weighted(rng, opts)
    if k == "int":
        return [rng.choice("ui"), weighted(rng, [(8, 3), (16, 2), (32, 2), (64, 1), (rng.randint(1, 64), 3)])]
    if k == "float":
        return [rng.choice(["f32", "f64"])]
    if k == "str":
        return ["str"]
    if k == "enum":
        return ["enum", rng.choice(vis_enums)]
    if k == "struct":
        return ["struct", rng.choice(vis_structs)]
    if k == "arr":
        return ["arr", gen_type(rng, vis_structs, vis_enums, depth + 1), rng.randint(1, 8)]
    if k == "dyn":
        return ["dyn", gen_type(rng, vis_structs, vis_enums, depth + 1)]
    return ["opt", gen_type(rng, vis_structs, vis_enums, depth + 1)]


def gen_decls(rng, names, vis, n_items, allow=("enum", "struct", "impl", "service", "device")):
    """Generate n_items declarations that may use anything in vis (dict of visible names); extends vis."""
    out = []
    canid = [rng.randint(1, 900)]
    for _ in range(n_items):
        kinds = [("struct", 5), ("enum", 2.5 if "enum" in allow else 0)]
        if vis["structs"] and "impl" in allow:
            kinds.append(("impl", 3))
        if vis["structs"] and "service" in allow:
            kinds.append(("service", 1.2))
        if "device" in allow:
            kinds.append(("device", 1.0))
        k = weighted(rng, kinds)
        if k == "enum":
            n = rng.randint(1, 4)
            vals = rng.sample(range(0, 40), n)
            d = {"kind": "enum", "name": _case_twin(rng, vis) or names.enum(), "values": [[a, v] for a, v in zip(rng.sample(S.ENUMERATORS, n), vals)]}
            vis["enums"].append(d["name"])
        elif k == "struct":
            nf = rng.randint(1, 4)
            fields = []
            for fi, fn in enumerate(rng.sample(S.WORDS, nf)):
                f = {"name": fn, "id": fi, "type": gen_type(rng, vis["structs"], vis["enums"])}
                if rng.random() < 0.2:
                    f["unit"] = rng.choice(["C", "V", "rpm", "%", "m/s", "\u00b0C", "\u00b5s", "\u03a9", "km/h\tfront", "a  b", "C:\\\\", "q\\\"uote",
                                            "%s", "100%d", "{0}", "%(n)s", "{}"])
                if rng.random() < 0.12 and f["type"][0] in ("u", "i", "f32", "f64"):
                    f["range"] = [0.0, rng.randint(1, 100) + 0.5]
                fields.append(f)
            if rng.random() < 0.3 and len(fields) > 1:
                # ids not in declaration order (the wire order is by id, the source order is free)
                ids = rng.sample(range(0, 2 * len(fields) + 1), len(fields))
                for f, i_ in zip(fields, ids):
                    f["id"] = i_
            d = {"kind": "struct", "name": _case_twin(rng, vis) or names.struct(), "fields": fields}
            vis["structs"].append(d["name"])
        elif k == "impl":
            s = rng.choice(vis["structs"])
            proto = weighted(rng, [("can", 5), ("lin", 2), ("eth", 1)])
            alias = s if rng.random() < 0.65 else f"{s}As{rng.randint(0, 99)}"
            tries = 0
            while (alias, proto) in vis["impls"] and tries < 5:
                alias = f"{s}As{rng.randint(100, 999)}"
                tries += 1
            if (alias, proto) in vis["impls"]:
                continue
            vis["impls"].append((alias, proto))
            canid[0] += rng.randint(1, 9)
            fl = [["id", canid[0]]]
            if rng.random() < 0.6:
                fl.append(["device", rng.choice(["ecu", "bms", "inv"])])
            if rng.random() < 0.3:
                fl.append(["bus", rng.choice(["can0", "can1"])])
            if rng.random() < 0.3:
                fl.append(["period", rng.choice([10, 100, -1])])
            sigs = []
            if rng.random() < 0.35:
                sigs.append({"name": rng.choice(S.WORDS), "fields": [["endianess", rng.choice(["big", "little"])]]
                             + ([["mux_count", rng.randint(2, 8)], ["mux_signal", rng.choice(S.WORDS)]] if rng.random() < 0.4 else [])})
                if rng.random() < 0.4:
                    # a second signal block (another field name)
                    sigs.append({"name": rng.choice([w for w in S.WORDS if w != sigs[0]["name"]]),
                                 "fields": [["endianess", rng.choice(["big", "little"])]]})
            d = {"kind": "impl", "protocol": proto, "type": s, "name": alias, "fields": fl, "signals": sigs}
        elif k == "service":
            ms = []
            for mi in range(rng.randint(1, 3)):
                ms.append({"name": f"do_{rng.choice(S.WORDS)}{mi}", "id": mi,
                           "input": rng.choice(vis["structs"]), "output": rng.choice(vis["structs"])})
            sname_ = names.service()
            if rng.random() < 0.15 and vis["enums"]:
                sname_ = rng.choice(vis["enums"])       # a service named like an enum: legal, the kinds have separate name spaces
            d = {"kind": "service", "name": sname_, "id": rng.randint(0, 200), "methods": ms}
            vis["services"].append(d["name"])
        else:
            fl = []
            if vis["services"] and rng.random() < 0.7:
                fl.append(["services", [{"ident": x} for x in rng.sample(vis["services"], rng.randint(1, min(2, len(vis["services"]))))]])
            if not fl or rng.random() < 0.5:
                fl.append(["address", rng.randint(1, 250)])
            dname_ = names.device()
            if rng.random() < 0.15 and vis["structs"]:
                dname_ = rng.choice(vis["structs"])     # a device named like a struct: legal
            d = {"kind": "device", "name": dname_, "fields": fl}
        out.append(d)
    return out


def _case_twin(rng, vis):
    """Occasionally a type is named like an existing type in another letter case (STATE next to State): distinct names."""
    have = vis["structs"] + vis["enums"]
    if not have or rng.random() >= 0.05:
        return None
    base = rng.choice(have)
    for cand in (base.upper(), base.lower(), base[0].lower() + base[1:]):
        if cand not in have:
            return cand
    return None


def new_vis():
    return {"structs": [], "enums": [], "impls": [], "services": []}


# ---------------------------------------------------------------------------
# module trees


def gen_tree(rng, max_depth=3, budget=None, same_basename_p=0.06, wide=0):
    """A module tree. Node: {"path": [dotted components] (relative to the importer's directory),
    "items": [decl | {"kind": "mod", "node": child}], "file": relative file path from the root dir}.

    Every module is closed: it only uses what it declares or imports itself.
    """
    names = Names(rng)
    used_files = set(["main.fcp"])
    basenames = []

    def build(depth, dirpath, filerel):
        vis = new_vis()
        items = []
        nchild = 0
        if depth < max_depth:
            nchild = weighted(rng, [(0, 3 if depth > 1 else 0.5), (1, 4), (2, 3), (3, 1)])
        n_items = rng.randint(1, 4) if depth > 1 else rng.randint(2, 5)
        # children first (their declarations become visible after the mod statement)
        children = []
        for _ in range(nchild):
            for _try in range(8):
                comps = [rng.choice(MODWORDS) for _ in range(weighted(rng, [(1, 5), (2, 3), (3, 1.5)]))]
                if rng.random() < same_basename_p:
                    comps[-1] = rng.choice(basenames + ["main", os.path.splitext(os.path.basename(filerel))[0]])
                rel = os.path.normpath(os.path.join(dirpath, *comps)) + ".fcp"
                if rel not in used_files:
                    break
            else:
                continue
            used_files.add(rel)
            basenames.append(comps[-1])
            child = build(depth + 1, os.path.dirname(rel), rel)
            child["path"] = comps
            children.append(child)
        if depth == 1 and wide:
            # a schema split into MANY small modules (more files than any fixed import budget would foresee)
            for wi in range(wide):
                comps = ([rng.choice(MODWORDS)] if wi % 3 == 0 else []) + [f"{rng.choice(MODWORDS)}{wi}"]
                rel = os.path.normpath(os.path.join(dirpath, *comps)) + ".fcp"
                used_files.add(rel)
                leaf_vis = new_vis()
                leaf_items = gen_decls(rng, names, leaf_vis, 1, allow=())
                child = {"path": comps, "file": rel, "items": leaf_items, "exports": leaf_vis}
                children.append(child)
        # interleave: declarations, then a mod, then declarations that may use what the mod brought in
        pos = sorted(rng.randint(0, n_items) for _ in children)
        made = 0
        for i in range(n_items + 1):
            for ci, p in enumerate(pos):
                if p == i:
                    ch = children[ci]
                    items.append({"kind": "mod", "node": ch})
                    for key in vis:
                        vis[key].extend(ch["exports"][key])
            if i < n_items:
                items.extend(gen_decls(rng, names, vis, 1))
                made += 1
        if not any(d["kind"] == "struct" for d in items if d["kind"] != "mod") and depth > 1:
            items.extend(gen_decls(rng, names, vis, 1, allow=()))
        # a device declared inside a module may carry the name of a struct/enum the importer already knows at that point
        # (declared or imported earlier): devices and types have separate name spaces
        known = []
        known_structs = []
        for it in items:
            if it["kind"] == "mod":
                devs = [d for d in it["node"]["items"] if d["kind"] == "device"]
                if known and devs and rng.random() < 0.35:
                    rng.choice(devs)["name"] = rng.choice(known)
                if known_structs and rng.random() < 0.2:
                    # a binding moved into the module although its struct stays in the importer: `impl` needs no
                    # resolution at parse time, so this is still a declare-before-use-respecting split
                    st = rng.choice(known_structs)
                    proto = rng.choice(["can", "lin", "default", "default"])
                    nm = st if proto == "default" or rng.random() < 0.5 else f"{st}In{len(it['node']['items'])}"
                    if (nm, proto) not in vis["impls"]:
                        vis["impls"].append((nm, proto))
                        it["node"]["items"].append({"kind": "impl", "protocol": proto, "type": st, "name": nm,
                                                    "fields": [["id", rng.randint(1, 2000)]], "signals": []})
                known += it["node"]["exports"]["structs"] + it["node"]["exports"]["enums"]
                known_structs += it["node"]["exports"]["structs"]
            elif it["kind"] in ("struct", "enum"):
                known.append(it["name"])
                if it["kind"] == "struct":
                    known_structs.append(it["name"])
        return {"path": None, "file": filerel, "items": items, "exports": vis}

    root = build(1, "", "main.fcp")
    return root


def nodes_of(root):
    out = []

    def walk(n, depth):
        out.append((n, depth))
        for it in n["items"]:
            if it["kind"] == "mod":
                walk(it["node"], depth + 1)

    walk(root, 1)
    return out


def flatten(root):
    out = []

    def walk(n):
        for it in n["items"]:
            if it["kind"] == "mod":
                walk(it["node"])
            else:
                out.append(it)

    walk(root)
    return out


def node_source(n, style=0):
    decls = []
    for it in n["items"]:
        if it["kind"] == "mod":
            # spelling of the dotted path (white space / line break / comment between its tokens): a fixed function of
            # the module's file name, so that no PRNG draw is spent on it
            rel = it["node"]["file"]
            sp = (len(rel) * 7 + sum(ord(c) for c in rel)) % 8
            decls.append({"kind": "mod", "path": it["node"]["path"], "spelling": {5: 1, 6: 2, 7: 3}.get(sp, 0)})
        else:
            decls.append(it)
    return S.render(decls, style)


def tree_files(root, style=0):
    return {n["file"]: node_source(n, style) for n, _ in nodes_of(root)}


def strip_node(n):
    """JSON-able copy without the bookkeeping."""
    return {"path": n["path"], "file": n["file"],
            "items": [{"kind": "mod", "node": strip_node(it["node"])} if it["kind"] == "mod" else it for it in n["items"]]}


def write_files(base: Path, files: dict):
    for rel, text in files.items():
        p = base / rel
        p.parent.mkdir(parents=True, exist_ok=True)
        if p.is_file():
            with open(p, newline="") as f:
                if f.read() == text:
                    continue          # untouched files keep their inode and mtime, like files an editor did not save
        with open(p, "w", newline="") as f:
            f.write(text)


def sync_files(base: Path, files: dict):
    """Make the directory tree under base contain exactly `files` (in place: same paths as the previous
    configuration, like an editor saving over a file or a checkout replacing it)."""
    base.mkdir(parents=True, exist_ok=True)
    want = {os.path.normpath(k) for k in files}
    for dp, dn, fn in os.walk(base):
        for f in fn:
            rel = os.path.normpath(os.path.relpath(os.path.join(dp, f), base))
            if rel not in want:
                os.remove(os.path.join(dp, f))
    # directories that hold no wanted file any more disappear as well
    for dp, dn, fn in os.walk(base, topdown=False):
        if dp != str(base) and not os.listdir(dp):
            os.rmdir(dp)
    write_files(base, files)


# ---------------------------------------------------------------------------
# tokens (for fault placement)

TOKEN = re.compile(r"""
    (?P<ws>\s+) | (?P<comment>//[^\n]*|/\*.*?\*/) | (?P<string>"(?:[^"\\]|\\.)*") |
    (?P<number>[+-]?\d+(?:\.\d+)?) | (?P<ident>[A-Za-z_][A-Za-z_0-9]*) | (?P<punct>.)
""", re.S | re.X)


def tokens(text):
    """[(kind, start, end)] for non-whitespace tokens."""
    out = []
    for m in TOKEN.finditer(text):
        k = m.lastgroup
        if k != "ws":
            out.append((k, m.start(), m.end()))
    return out


def token_at(toks, pos):
    for k, a, b in toks:
        if a < pos < b:
            return k, "inside"
        if pos == a:
            return k, "before"
    return "end", "before"


# ---------------------------------------------------------------------------
# running the real parser under a watchdog, inspecting diagnostics


class Hang(BaseException):
    pass


def _alarm(signum, frame):
    raise Hang()


ANSI = re.compile(r"\x1b\[[0-9;]*m")
CITE = re.compile(r"\[([^\[\]:/]+\.fcp):(-?\d+)\]")
ECHO = re.compile(r"^(-?\d+) \|(?: (.*))?$")        # "<n> | <text>"; an empty source line is echoed as "<n> |"


class Parser:
    def __init__(self):
        setup_repo_path()
        import fcp.parser as P
        import fcp.error as E
        self.P = P
        self.E = E
        self.shared_logger = E.Logger({})

    def logger(self, mode):
        if mode == "fresh":
            return self.E.Logger({})
        if mode == "shared":
            return self.shared_logger
        return None   # default argument of get_fcp

    def parse(self, api, arg, logger_mode, timeout=15):
        """api: 'file' (arg = path) | 'string' (arg = text).
        Returns dict(outcome=ok|err|exception|hang|bad_result, result, logger, detail)."""
        lg = self.logger(logger_mode)
        old = signal.signal(signal.SIGALRM, _alarm)
        signal.alarm(timeout)
        try:
            if api == "file":
                r = self.P.get_fcp(str(arg), lg) if lg is not None else self.P.get_fcp(str(arg))
            else:
                r = self.P.get_fcp_from_string(arg, lg) if lg is not None else self.P.get_fcp_from_string(arg)
        except Hang:
            return {"outcome": "hang", "detail": f"parse did not return within {timeout}s"}
        except Exception as e:
            return {"outcome": "exception", "detail": f"{type(e).__name__}: {str(e)[:200]}", "exc": type(e).__name__,
                    "orig": type(getattr(e, "orig_exc", e)).__name__}
        finally:
            signal.alarm(0)
            signal.signal(signal.SIGALRM, old)
        if lg is None:
            # the default logger object of get_fcp / get_fcp_from_string
            fn = self.P.get_fcp if api == "file" else self.P.get_fcp_from_string
            lg = getattr(fn, "__wrapped__", fn).__defaults__[0]
        try:
            ok, err = r.is_ok(), r.is_err()
        except Exception as e:
            return {"outcome": "bad_result", "detail": f"result does not answer is_ok/is_err: {type(e).__name__}"}
        if ok == err:
            return {"outcome": "bad_result", "detail": "is_ok() == is_err()"}
        return {"outcome": "ok" if ok else "err", "result": r, "logger": lg}

    def render(self, res):
        """Returns (text or None, problem or None)."""
        try:
            text = res["logger"].error(res["result"].err())
        except Exception as e:
            return None, f"{type(e).__name__}: {str(e)[:160]}"
        if not isinstance(text, str):
            return None, f"diagnostic is a {type(text).__name__}, not a string"
        return ANSI.sub("", text), None


def _squash(x: str) -> str:
    return "".join(ch for ch in x.replace("\ufeff", "") if not ch.isspace())


def _same_line(source_line: str, echoed: str) -> bool:
    """The echo shows line n: exactly, or as a renderer may display it (BOM / CR dropped, tabs expanded, a long
    line clipped, possibly with an ellipsis). The property only demands that the cited line exists; the echo check is
    an extra of this harness and is kept tolerant of display normalisation."""
    a, full = _squash(source_line), _squash(echoed)
    if a == full:
        return True
    b = _squash(echoed.rstrip(".\u2026"))         # a clipped line may end in an ellipsis
    return a == b or (len(b) >= 24 and a.startswith(b))


def check_citations(text, sources):
    """sources: {basename: [file texts with that base name]}. Returns list of (kind, message)."""
    probs = []
    lines = text.split("\n")
    for i, line in enumerate(lines):
        for m in CITE.finditer(line):
            name, n = m.group(1), int(m.group(2))
            cands = sources.get(name)
            if cands is None:
                probs.append(("cites_unknown_file", f"diagnostic cites [{name}:{n}] but no such source exists"))
                continue
            fits = [c for c in cands if 1 <= n <= len(c.split("\n"))]
            if not fits:
                probs.append(("cites_missing_line", f"diagnostic cites [{name}:{n}] but {name} has "
                                                    f"{[len(c.split(chr(10))) for c in cands]} line(s)"))
                continue
            # the echoed source lines that follow the citation (a renderer may show context lines around line n):
            # if any are shown, line n must be among them and must be echoed faithfully
            echoes = []
            for j in range(i + 1, min(i + 8, len(lines))):
                if CITE.search(lines[j]):
                    break
                e = ECHO.match(lines[j].strip())
                if e:
                    echoes.append((int(e.group(1)), e.group(2) or ""))
            if echoes:
                mine = [t for en, t in echoes if en == n]
                if not mine:
                    probs.append(("echo_line_number_differs", f"cites [{name}:{n}] but echoes line(s) {[en for en, _ in echoes]}"))
                elif not any(_same_line(c.split("\n")[n - 1], t) for c in fits for t in mine):
                    probs.append(("echo_text_differs", f"[{name}:{n}] echoes {mine[0][:60]!r}, line {n} of {name} is "
                                                       f"{[c.split(chr(10))[n - 1][:60] for c in fits]}"))
    return probs
