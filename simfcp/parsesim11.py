"""parsesim (C11) — the parser reads a tree of schema files from a private disk on which a
crash, a full disk or an interrupted checkout left torn, garbled, emptied or missing files.

Real code: fcp.parser.get_fcp / get_fcp_from_string (FcpV2Transformer incl. mod_expr, lark),
fcp.error.Logger.error.  Disk: a real scratch directory owned by the run.  One interpreter
parses many damaged trees in sequence, alternating between a fresh Logger, one Logger shared
by all parses of the run, and the functions' default-argument Logger.
Fault enumeration: torn(file, k) for EVERY byte k of EVERY file of the tree.
"""

from __future__ import annotations

import os
import re
from collections import Counter
from pathlib import Path

from .kit import pristine, H, Scratch, Trace, short, stream, weighted
from .gen import schema as S
from . import parsekit as K
from .parsesim20 import root_path

PROPERTY = "C11"
ENGINE = "parsesim"
LEVEL = "fault_enumeration"
RULE = ("one run = one small seeded schema tree (1-3 files, all declaration kinds) on a private disk; faults, one per parse: "
        "torn(file,k) for EVERY byte offset k of EVERY file (exhaustive per tree), ~40 garbles per tree (token replaced by an "
        "illegal character / a token of another kind / deleted / duplicated / swapped, plus targeted out-of-domain literals: "
        "float field id, string or float enumerator value, unknown and ill-arity parameters, emptied enum, float / negative "
        "array size, a bracket token duplicated 150-2500 times = deeply nested types and values), missing(file), empty(file), and fault-free controls; both get_fcp (files) and get_fcp_from_string; "
        "evaluations = parses judged; distinct_nontrivial counts distinct (file depth, fault kind, token kind at the fault "
        "point, inside/before token, API, outcome) tuples whose parse did not succeed")
COMPONENTS = {
    "real": ["fcp.parser.get_fcp", "fcp.parser.get_fcp_from_string", "FcpV2Transformer (incl. mod_expr)", "lark Earley parser",
             "fcp.error.Logger.error / log_node"],
    "stub": ["a private scratch directory as the disk; the simulator tears, garbles, empties or removes files",
             "SIGALRM watchdog (15 s per parse) as the termination oracle"],
}
ASSUMPTIONS = [
    "inputs are text (valid UTF-8); a missing ROOT file is outside 'every input text' and is not injected",
    "termination is a 15 s watchdog per parse (measured cost: 2-80 ms), not a step bound",
    "with several files of one base name, a citation [name.fcp:n] is satisfied by any of them",
    "nothing is asserted about WHICH verdict is returned (C07/C08)",
]
TIERS = {
    "quick": {"runs": 36, "chunk": 1, "wall": 80, "chunk_timeout": 500, "selftest": 4},
    "thorough": {"runs": 700, "chunk": 1, "wall": 800, "chunk_timeout": 900, "selftest": 8},
}
ISOLATE_RUNS = True
OPTIMIZE_SHARE = 0.06      # this share of the runs executes under `python -O`


def preload():
    from .kit import setup_repo_path
    setup_repo_path()
    import importlib
    for m in ("fcp.parser", "fcp.error"):
        importlib.import_module(m)


EXPECTED_PROBES = {t: ["torn_root_inside_token", "torn_module", "torn_to_empty", "garble_float_id", "garble_string_enum_value",
                       "garble_unknown_param", "garble_param_arity", "garble_impl_unknown_type", "garble_rename", "garble_case_twin", "garble_empty_enum", "garble_array_size", "garble_deep_nest", "garble_int_width", "garble_import_cycle", "other_text:random_tokens", "other_text:crlf", "other_text:bom", "banner_comment", "exotic_line_separators", "root_path:symlink", "root_path:rel",
                       "missing_module", "empty_module", "string_api", "tree_modified_in_place", "shared_logger_reused", "err_rendered",
                       "citation_checked"] for t in TIERS}

REPL = {
    "number": ['"x"', "foo", "1.5", "-1", "99999999999999999999", "1e3", "", '"5%"', '"%s"', '"{0}"'],
    "string": ["7", "foo", '""', "1.5", '"\\""', '"%s"', '"100%"', '"{0}"', '"%(x)s"'],
    "ident": ["7", '"s"', "u8", "str", "Optional", "struct", "x.y", "", '"%d"'],
    "punct": ["{", "}", "[", "]", "(", ")", ",", ":", ";", "@", "|", "=", ".", ""],
    "comment": [""],
}
ILLEGAL = ["$", "#", "~", "`", "?", "\\", "'", "\x00", "é", "\U0001F600"]


# ---------------------------------------------------------------------------


def small_tree(rng):
    """1-3 files, few declarations: every byte offset is going to be a fault point."""
    root = K.gen_tree(rng, max_depth=weighted(rng, [(1, 3), (2, 5), (3, 2)]), same_basename_p=0.3)
    # trim: keep at most 3 files and at most 3 declarations per file
    count = [0]

    def trim(n):
        count[0] += 1
        items = []
        nd = 0
        for it in n["items"]:
            if it["kind"] == "mod":
                if count[0] < 3:
                    trim(it["node"])
                    items.append(it)
            else:
                # declarations that use names from a dropped module would not resolve: keep only closed prefixes
                nd += 1
                if nd <= 3:
                    items.append(it)
        n["items"] = items

    trim(root)
    if rng.random() < 0.4:
        # one string literal that is awkward for anything that scans the text itself: ends in an escaped backslash,
        # holds an escaped quote, a tab, braces or comment openers
        structs = [it for n, _ in K.nodes_of(root) for it in n["items"] if it["kind"] == "struct"]
        if structs:
            rng.choice(rng.choice(structs)["fields"])["unit"] = rng.choice(
                ["C:\\\\", "q\\\"uote", "a\tb", "{", "}", "/* x", "// y", "x\\\\\\\\"])
    return root


def closed(root):
    """Check that the trimmed tree is still a valid schema (the generator's acceptance gate does the real check)."""
    return True


def targeted(rng, text, toks, self_mod="main"):
    """Out-of-domain literal faults. Returns list of (kind, new_text)."""
    out = []
    ids = [m for m in re.finditer(r"@\s*(\d+)", text)]
    if ids:
        m = rng.choice(ids)
        out.append(("garble_float_id", text[:m.start(1)] + rng.choice(["0.5", "1e2", "-3", '"1"', '"1%"']) + text[m.end(1):]))
    ev = [m for m in re.finditer(r"=\s*(\d+),", text)]
    if ev:
        m = rng.choice(ev)
        out.append(("garble_string_enum_value", text[:m.start(1)] + rng.choice(['"x"', "1.5", "On", "[1]", '"50%"', '"%s"', '"{0}"', '"%(v)d"']) + text[m.end(1):]))
    pm = [m for m in re.finditer(r"\|\s*(unit|range)\(([^)]*)\)", text)]
    if pm:
        m = rng.choice(pm)
        out.append(("garble_unknown_param", text[:m.start(1)] + rng.choice(["foo", "units", "Range"]) + text[m.end(1):]))
        m = rng.choice(pm)
        newargs = rng.choice(["", "1.0", "1.0, 2.0, 3.0", '"a", "b"', "x", '"0%", "100%"', '"%d"'])
        out.append(("garble_param_arity", text[:m.start(2)] + newargs + text[m.end(2):]))
    else:
        # add a parameter with wrong arity to some field
        fm = [m for m in re.finditer(r"@\d+: ([^,|\n]+),", text)]
        if fm:
            m = rng.choice(fm)
            out.append(("garble_param_arity", text[:m.end(1)] + rng.choice([" | range(1.0)", " | unit()", " | foo", " | unit(1, 2)"]) + text[m.end(1):]))
            out.append(("garble_unknown_param", text[:m.end(1)] + ' | scale("x")' + text[m.end(1):]))
    # a second type whose name differs from an existing one only in letter case (a copy of the declaration): distinct names
    tb = [m for m in re.finditer(r"(?m)^(struct|enum) (\w+) \{\n(?:[^{}]*\n)?\}\n", text)]
    if tb:
        m = rng.choice(tb)
        nm = m.group(2)
        twin = nm.upper() if nm.upper() != nm else nm.lower()
        other = "enum" if m.group(1) == "struct" and rng.random() < 0.5 else None
        block = m.group(0).replace(f"{m.group(1)} {nm} ", f"{m.group(1)} {twin} ", 1)
        if other:
            block = f"enum {twin} {{\n    On = 1,\n}}\n"
        out.append(("garble_case_twin", text + "\n" + block))
    # a binding whose type is not a declared struct (misspelt, an enum's name, the protocol name)
    im = [m for m in re.finditer(r"impl (\w+) for (\w+)", text)]
    if im:
        m = rng.choice(im)
        enames = re.findall(r"enum (\w+)", text)
        out.append(("garble_impl_unknown_type", text[:m.start(2)] + rng.choice(["Undeclared9", m.group(2) + "x", m.group(1)] + enames[:1]) + text[m.end(2):]))
    en = [m for m in re.finditer(r"enum (\w+) \{([^}]*)\}", text)]
    if en:
        m = rng.choice(en)
        out.append(("garble_empty_enum", text[:m.start(2)] + "\n" + text[m.end(2):]))
    # a token duplicated many times: deeply nested types / values (balanced and torn)
    ty = [m for m in re.finditer(r"@\d+: ([A-Za-z_0-9]+)", text)]
    if ty:
        m = rng.choice(ty)
        n = rng.choice([150, 400, 1000, 2500])
        opener, closer = rng.choice([("[", "]"), ("Optional[", "]"), ("[", ", 2]")])
        out.append(("garble_deep_nest", text[:m.start(1)] + opener * n + m.group(1) + closer * n + text[m.end(1):]))
        out.append(("garble_deep_nest", text[:m.start(1)] + opener * n + m.group(1) + closer * (n // 2) + text[m.end(1):]))
    vals = [m for m in re.finditer(r": (-?\d+),\n", text)]
    if vals:
        m = rng.choice(vals)
        n = rng.choice([400, 1500])
        out.append(("garble_deep_nest", text[:m.start(1)] + "[" * n + m.group(1) + "]" * n + text[m.end(1):]))
    # integer widths outside 1..64 (the grammar takes any one or two digits)
    iw = [m for m in re.finditer(r"[:\[] ?([ui]\d{1,2})\b", text)]
    if iw:
        m = rng.choice(iw)
        out.append(("garble_int_width", text[:m.start(1)] + rng.choice(["u0", "i0", "u00", "i72", "u99", "i65", "u65"]) + text[m.end(1):]))
    # an import cycle: this file imports itself / the root (in place of a declaration boundary)
    decl = [m for m in re.finditer(r"\n(?=struct |enum |impl |service |device )", text)]
    if decl and rng.random() < 0.35:          # costly (the import recursion runs into the recursion limit): not on every file
        m = rng.choice(decl)
        out.append(("garble_import_cycle", text[:m.end()] + rng.choice(["mod main;\n", f"mod {self_mod};\n"]) + text[m.end():]))
    # a string literal ending in an escaped backslash, and one with an escaped quote
    us = [m for m in re.finditer(r'unit\("([^"]*)"\)', text)]
    if us:
        m = rng.choice(us)
        out.append(("garble_string_escapes", text[:m.start(1)] + rng.choice(["C:\\\\", "a\\\"b", "\\\\", "x\\\\\\\\"]) + text[m.end(1):]))
    ar = [m for m in re.finditer(r"\[[^\[\],]+, (\d+)\]", text)]
    if ar:
        m = rng.choice(ar)
        out.append(("garble_array_size", text[:m.start(1)] + rng.choice(["2.5", "-1", "0", '"3"', "99999999999", '"3%"']) + text[m.end(1):]))
    return out


def garbles(rng, text, n):
    toks = K.tokens(text)
    out = []
    if not toks:
        return out
    for _ in range(n):
        ti = rng.randrange(len(toks))
        k, a, b = toks[ti]
        op = weighted(rng, [("illegal", 2), ("retype", 4), ("delete", 2), ("dup", 1.5), ("swap", 1.5), ("insert_illegal", 1),
                            ("rename", 2.5 if k == "ident" else 0)])
        if op == "illegal":
            out.append(("garble_illegal", text[:a] + rng.choice(ILLEGAL) + text[b:], k))
        elif op == "insert_illegal":
            p = rng.randint(a, b)
            out.append(("garble_illegal", text[:p] + rng.choice(ILLEGAL) + text[p:], k))
        elif op == "retype":
            out.append(("garble_retype", text[:a] + rng.choice(REPL.get(k, [""])) + text[b:], k))
        elif op == "rename":
            # the text stays well-formed, a NAME changes: to another identifier of the file, another letter case, a fresh one
            others = sorted({text[a2:b2] for k2, a2, b2 in toks if k2 == "ident" and text[a2:b2] != text[a:b]})
            cur = text[a:b]
            new = rng.choice([cur.upper(), cur.lower(), cur + "x", "Undeclared9"] + (rng.sample(others, min(3, len(others))) if others else []))
            out.append(("garble_rename", text[:a] + new + text[b:], k))
        elif op == "delete":
            out.append(("garble_delete", text[:a] + text[b:], k))
        elif op == "dup":
            out.append(("garble_dup", text[:b] + " " + text[a:b] + text[b:], k))
        elif ti + 1 < len(toks):
            k2, a2, b2 = toks[ti + 1]
            out.append(("garble_swap", text[:a] + text[a2:b2] + text[b:a2] + text[a:b] + text[b2:], k))
    return out


VOCAB = ["version", ":", '"3"', "struct", "enum", "impl", "for", "as", "signal", "service", "method", "returns", "device", "mod",
         "{", "}", "[", "]", "(", ")", ",", ";", "@", "|", "=", ".", "u8", "i16", "f32", "f64", "str", "Optional", "unit", "range",
         "Foo", "bar", "x1", "0", "1", "-7", "2.5", '"s"', '""', "// c\n", "/* c */", "\n", "\t", " "]


def other_texts(rng, text):
    """The 'random text' family and whole-file encodings/line-ending variants. Returns [(kind, new_text)]."""
    out = []
    for _ in range(6):
        n = rng.choice([1, 3, 8, 20, 60])
        soup = " ".join(rng.choice(VOCAB) for _ in range(n))
        if rng.random() < 0.5:
            soup = 'version: "3"\n' + soup
        out.append(("random_tokens", soup))
    alphabet = "abc {}[]():;,@|=.\"\n\t0123456789_-/*\\é\x00\x7f\u2028"
    for _ in range(3):
        out.append(("random_chars", "".join(rng.choice(alphabet) for _ in range(rng.choice([1, 5, 40, 200])))))
    out.append(("crlf", text.replace("\n", "\r\n")))
    out.append(("cr_only", text.replace("\n", "\r")))
    out.append(("bom", "\ufeff" + text))
    out.append(("no_final_newline", text.rstrip("\n")))
    out.append(("trailing_garbage", text + rng.choice(["}", "\x00\x00\x00", "struct", "\n\n/* unterminated", '"', "\x1a"])))
    out.append(("long_identifier", text.replace("struct ", "struct " + "A" * rng.choice([300, 5000]), 1)))
    out.append(("unterminated_string", text.replace('"', '"\\', 1) if '"' in text[14:] else text + '"x'))
    return out


# ---------------------------------------------------------------------------


def judge_parse(par, api, arg, logger_mode, sources, probes, timeout=15):
    """Returns (violations [(class, detail, msg)], outcome)."""
    res = par.parse(api, arg, logger_mode, timeout)
    out = res["outcome"]
    if out == "hang":
        return [("hang", "parse", res["detail"])], out
    if out == "exception":
        return [("exception_escapes", res.get("orig") or res["exc"], res["detail"])], out
    if out == "bad_result":
        return [("bad_result", "result", res["detail"])], out
    if out == "ok":
        return [], out
    txt, prob = par.render(res)
    if prob is not None:
        return [("diagnostic_unrenderable", prob.split(":")[0], f"Logger.error raised {prob}")], out
    probes["err_rendered"] += 1
    v = []
    for kind, msg in K.check_citations(txt, sources):
        v.append((kind, "citation", msg + " :: " + txt.strip()[:200].replace("\n", " / ")))
    if K.CITE.search(txt):
        probes["citation_checked"] += 1
    return v[:1], out


def source_map(files):
    m = {}
    for rel, text in files.items():
        m.setdefault(os.path.basename(rel), []).append(text)
    return m


def mk(v, workload, fault_kind, same_bn, run=None):
    cls, detail, msg = v
    sig = f"C11:{cls}:{detail}:{fault_kind}" + (":same_basename_modules" if same_bn else "")
    return {"class": cls, "signature": sig, "message": msg, "run": run, "workload": workload}


def run_one(seed: int, index: int, tier: str) -> dict:
    run_seed = H(seed, PROPERTY, index)
    tr = Trace()
    probes = Counter()
    faults = Counter()
    distinct = set()
    res = {"index": index, "violations": [], "evals": 0, "harness_errors": []}
    rng = stream(run_seed, "schema")
    rf = stream(run_seed, "faults")
    rl = stream(run_seed, "swarm")
    par = K.Parser()
    # generate until the tree is a valid schema (trimming may orphan a reference)
    for attempt in range(6):
        root = small_tree(rng)
        files = K.tree_files(root, style=rng.randrange(8))
        if rl.random() < 0.3:
            # a licence-style banner: long runs of '*' inside a block comment (every truncation inside it is an
            # unterminated comment ending in a run of stars)
            n = rl.choice([12, 30, 45, 70])
            banner = "/" + "*" * n + "\n * schema " + "*" * (n // 2) + " generated\n " + "*" * n + "/\n"
            files = {k: (banner + v if rl.random() < 0.7 else v.replace("\n\n", "\n" + banner + "\n", 1)) for k, v in files.items()}
            probes["banner_comment"] += 1
        if rl.random() < 0.25:
            # characters that str.splitlines() treats as line boundaries but the grammar and split("\n") do not,
            # inside a comment and inside a string literal
            sep = rl.choice(["\x0c", "\x0b", "\u2028", "\u2029", "\x85", "\x1c", "\x1d", "\x1e"])
            files = {k: v.replace("\n\n", f"\n// note{sep}more{sep}\n\n", 1).replace('unit("', f'unit("{sep}', 1) for k, v in files.items()}
            probes["exotic_line_separators"] += 1
        if rl.random() < 0.3:
            # comments and blank lines so that line numbers and token boundaries vary
            files = {k: v.replace("\n\n", "\n// note\n\n", 1).replace("{\n", "{ /* c */\n", 1) for k, v in files.items()}
        with Scratch("c11g") as base:
            K.write_files(base, files)
            ctl = par.parse("file", base / "main.fcp", "fresh")
        if ctl["outcome"] == "ok" and (sum(len(v) for v in files.values()) <= 1200 or attempt >= 4):
            break       # every byte offset is a fault point and parse cost grows with the prefix: keep trees small
    else:
        res["harness_errors"].append(f"run {index}: could not generate a valid small tree: {ctl.get('detail')}")
        res["digest"] = "x"
        return res
    nodes = K.nodes_of(root)
    depth_of = {n["file"]: d for n, d in nodes}
    bn = Counter(os.path.basename(f) for f in files)
    same_bn = any(c > 1 for c in bn.values())
    use_string_api = len(files) == 1 and rl.random() < 0.5
    if use_string_api:
        probes["string_api"] += 1
    api = "string" if use_string_api else "file"
    if api == "file" and len(files) > 1 and rl.random() < 0.12:
        # the root text is handed over as a string while the process's working directory is the tree: `mod` statements
        # then resolve against real files although the root itself is in memory
        api = "string_in_dir"
        probes["string_api_in_tree_dir"] += 1
    path_style = rl.choice(["abs", "abs", "abs", "rel", "dotdot", "symlink"]) if api == "file" else "abs"
    probes["root_path:" + path_style] += 1
    modes = ["fresh", "shared", "default"]
    tree_json = {"files": files}
    nviol = [0]
    sample_faults = []
    first_err = {}
    recent = []        # the last three parses of this process (files + logger mode): what a replay needs to re-create
    inplace = rl.random() < 0.7
    if inplace:
        probes["tree_modified_in_place"] += 1

    def deliver(kind, file, newtext, base, k, tokinfo):
        """Apply one fault to one file, parse, judge."""
        if nviol[0] >= 8:
            return
        ff = dict(files)
        if newtext is None:
            del ff[file]
        else:
            ff[file] = newtext
        mode = modes[rl.randrange(3)]
        tmo = 120 if kind == "garble_import_cycle" else 15     # a cycle ends at the recursion limit: slow, but it ends
        if mode == "shared":
            probes["shared_logger_reused"] += 1
        if api == "string":
            v, out = judge_parse(par, "string", ff["main.fcp"], mode, {"main.fcp": [ff["main.fcp"]]}, probes, tmo)
        elif api == "string_in_dir":
            sub = base / "tree" if inplace else base / f"t{k}"
            K.sync_files(sub, ff)
            os.chdir(sub)
            v, out = judge_parse(par, "string", ff.get("main.fcp", ""), mode, source_map(ff), probes, tmo)
        else:
            # the tree lives in ONE directory that the faults modify in place (70 % of the runs)
            sub = base / "tree" if inplace else base / f"t{k}"
            K.sync_files(sub, ff)
            v, out = judge_parse(par, "file", root_path(sub, "main.fcp", path_style), mode, source_map(ff), probes, tmo)
        res["evals"] += 1
        # what a replay needs: the first parse of this run whose error was rendered through the same long-lived
        # logger (it may have filled a cache there), then the last three parses
        hist = ([first_err[mode]] if mode in first_err and first_err[mode] not in recent else []) + list(recent)
        entry = {"files": ff, "logger": mode}
        if out == "err" and mode != "fresh" and mode not in first_err:
            first_err[mode] = entry
        recent[:] = (recent + [entry])[-3:]
        faults[kind.split("_")[0] if kind.startswith("garble") else kind] += 1      # torn / garble / random_* / crlf / ...
        if out != "ok":
            distinct.add(short([depth_of.get(file, 1), kind, tokinfo, api, out]))
        tr.add("parse", file=file, fault=kind, at=tokinfo, outcome=out, v=[x[:2] for x in v])
        for x in v:
            nviol[0] += 8 if x[0] == "hang" else 1        # one watchdog expiry ends the run
            res["violations"].append(mk(x, {"files": ff, "api": api, "logger": mode, "fault": {"kind": kind, "file": file},
                                            "history": hist, "path_style": path_style}, kind, same_bn, index))
        if len(sample_faults) < 4 and kind != "torn":
            sample_faults.append({"fault": kind, "file": file, "outcome": out})

    with Scratch("c11") as base:
        k = 0
        # fault-free control
        deliver("none", "main.fcp", files["main.fcp"], base, k, "-")
        for file in sorted(files):
            text = files[file]
            toks = K.tokens(text)
            is_root = file == "main.fcp"
            # torn(file, k) for every k
            for cut in range(len(text)):
                k += 1
                tk, where = K.token_at(toks, cut)
                if is_root and where == "inside":
                    probes["torn_root_inside_token"] += 1
                if not is_root:
                    probes["torn_module"] += 1
                if cut == 0:
                    probes["torn_to_empty"] += 1
                deliver("torn", file, text[:cut], base, k, f"{tk}/{where}")
            # garbles
            for kind, newtext, tk in garbles(rf, text, 28):
                k += 1
                deliver(kind, file, newtext, base, k, tk)
            self_mod = ".".join(os.path.splitext(file)[0].split(os.sep))
            for kind, newtext in targeted(rf, text, toks, self_mod):
                k += 1
                probes[kind] += 1
                deliver(kind, file, newtext, base, k, "literal")
            for kind, newtext in other_texts(rf, text):
                k += 1
                probes["other_text:" + kind] += 1
                deliver(kind, file, newtext, base, k, "file")
            if not is_root:
                k += 1
                probes["missing_module"] += 1
                deliver("missing", file, None, base, k, "-")
                k += 1
                probes["empty_module"] += 1
                deliver("empty", file, "", base, k, "-")
    res["digest"] = tr.digest()
    res["probes"] = probes
    res["faults"] = faults
    res["distinct"] = distinct
    res["sample"] = {"files": files, "api": api, "faults": ["torn at every byte of every file"] + sample_faults} \
        if index % 80 == 0 else None
    return res


# ---------------------------------------------------------------------------


def check_workload(w):
    par = K.Parser()
    files = w["files"]
    bn = Counter(os.path.basename(f) for f in files)
    same_bn = any(c > 1 for c in bn.values())
    out = []
    probes = Counter()
    mode = w.get("logger", "fresh")
    tmo = 120 if w.get("fault", {}).get("kind") == "garble_import_cycle" else 15
    with Scratch("c11r") as base:
        # the parses that preceded this one in the same process and directory (not judged)
        for hf in w.get("history", []):
            files_h, mode_h = (hf["files"], hf.get("logger", mode)) if "files" in hf else (hf, mode)
            # parsed AND rendered, exactly like in the run (rendering is what touches the logger's state)
            if w.get("api") == "string":
                judge_parse(par, "string", files_h["main.fcp"], mode_h, {"main.fcp": [files_h["main.fcp"]]}, probes, 120)
            elif w.get("api") == "string_in_dir":
                K.sync_files(base / "t", files_h)
                os.chdir(base / "t")
                judge_parse(par, "string", files_h.get("main.fcp", ""), mode_h, source_map(files_h), probes, 120)
            else:
                K.sync_files(base / "t", files_h)
                judge_parse(par, "file", root_path(base / "t", "main.fcp", w.get("path_style", "abs")), mode_h, source_map(files_h), probes, 120)
        if w.get("api") == "string":
            v, _ = judge_parse(par, "string", files["main.fcp"], mode, {"main.fcp": [files["main.fcp"]]}, probes, tmo)
        elif w.get("api") == "string_in_dir":
            K.sync_files(base / "t", files)
            os.chdir(base / "t")
            v, _ = judge_parse(par, "string", files.get("main.fcp", ""), mode, source_map(files), probes, tmo)
        else:
            K.sync_files(base / "t", files)
            v, _ = judge_parse(par, "file", root_path(base / "t", "main.fcp", w.get("path_style", "abs")), mode, source_map(files), probes, tmo)
    for x in v:
        out.append(mk(x, w, w.get("fault", {}).get("kind", "?"), same_bn))
    return out


def replay(workload):
    return check_workload(workload)


def minimise(v):
    """Line-level ddmin on every file while the same class/detail persists."""
    from .kit.ddmin import ddmin
    w = v["workload"]
    key = v["signature"].split(":")[1:3]

    def fails(files):
        try:
            return any(x["signature"].split(":")[1:3] == key for x in pristine(check_workload, dict(w, files=files)))
        except Exception:
            return False

    files = dict(w["files"])
    for name in sorted(files):
        lines = files[name].split("\n")
        if len(lines) < 3:
            continue
        kept = ddmin(lines, lambda ls: fails(dict(files, **{name: "\n".join(ls)})), 80)
        files[name] = "\n".join(kept)
    out = dict(v, workload=dict(w, files=files), minimised=True)
    vs = [x for x in pristine(check_workload, out["workload"]) if x["signature"].split(":")[1:3] == key]
    if vs:
        out["message"] = vs[0]["message"]
        return out
    return v
