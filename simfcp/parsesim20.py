"""parsesim (C20) — a schema split into a tree of module files on a private disk equals the
single-file schema; a missing or broken module at any depth is reported as an error naming it.

Real code: fcp.parser.get_fcp (FcpV2Transformer.mod_expr, FcpV2.merge, lark), Logger.error.
Disk: a real scratch directory owned by the run.  Faults: missing(M), syntax(M) (illegal token or
torn tail), resolve(M) (reference to an undeclared type) for EVERY module M of the tree.
"""

from __future__ import annotations

import copy
import os
from collections import Counter
from pathlib import Path

from .kit import pristine, H, Scratch, Trace, short, stream, weighted
from .gen import schema as S
from . import parsekit as K

PROPERTY = "C20"
ENGINE = "parsesim"
LEVEL = "exploration"
RULE = ("one run = one seeded declaration list (structs, enums, bindings incl. renamed ones and signal blocks, services, "
        "devices) split into a seeded tree of closed modules (depth <= 3, dotted paths resolved relative to the importer, "
        "mod placed before first need); judged fault-free against the single-file rendering, then once per module M and "
        "fault kind in {missing, syntax(illegal token), syntax(torn tail), resolve}; evaluations = parses judged; "
        "distinct_nontrivial counts distinct (tree shape, depth of M, dotted length of M's path, fault kind, declaration "
        "kinds inside M) tuples for trees with at least one module")
COMPONENTS = {
    "real": ["fcp.parser.get_fcp", "FcpV2Transformer.mod_expr", "FcpV2.merge", "lark Earley parser", "fcp.error.Logger.error"],
    "stub": ["a private scratch directory as the disk; the simulator removes / corrupts module files"],
}
ASSUMPTIONS = [
    "modules are closed (use only what they declare or import) and imported exactly once (a tree): the weaker reading of "
    "'declare-before-use-respecting subset'",
    "categories are compared as name-keyed maps; list order is not judged",
    "'names the module' = the rendered diagnostic or the message chain contains the module's base file name",
]
TIERS = {
    "quick": {"runs": 560, "chunk": 10, "wall": 100, "chunk_timeout": 400, "selftest": 6},
    "thorough": {"runs": 8000, "chunk": 25, "wall": 800, "chunk_timeout": 900, "selftest": 10},
}
ISOLATE_RUNS = True


def preload():
    from .kit import setup_repo_path
    setup_repo_path()
    import importlib
    for m in ("fcp.parser", "fcp.error"):
        importlib.import_module(m)


EXPECTED_PROBES = {t: ["file_with_crlf_or_cr_endings", "module_is_symlink_to_outside", "fault_free_reparsed_at_end", "root_path:rel", "root_path:dotdot", "root_path:symlink", "configurations_in_place", "depth3_module", "dotted_path_3", "service_in_module", "device_in_module", "impl_in_module",
                       "enum_in_module", "module_uses_grandchild_decl", "missing_at_depth3", "two_modules_same_basename"]
                   for t in TIERS}


def categories(d):
    out = {}
    out["structs"] = {x["name"]: x for x in d.get("structs", [])}
    out["enums"] = {x["name"]: x for x in d.get("enums", [])}
    out["impls"] = {f'{x["name"]}/{x["protocol"]}': x for x in d.get("impls", [])}
    out["services"] = {x["name"]: x for x in d.get("services", [])}
    out["devices"] = {x["name"]: x for x in d.get("devices", [])}
    dup = {k: len(d.get(k, [])) - len(v) for k, v in out.items()}
    return out, {k: n for k, n in dup.items() if n}


def chain(res):
    try:
        return "\n".join(str(m[0]) for m in res["result"].err().msg)
    except Exception:
        return repr(res.get("result"))


def make_fault(rng, node, kind, files):
    """Returns (new file map, detail) for a fault on module `node`."""
    files = dict(files)
    rel = node["file"]
    if kind == "missing":
        del files[rel]
        return files, {}
    if kind == "missing_dir":
        # the whole directory the module lives in is gone (with everything below it); a top-level module just vanishes
        d = os.path.dirname(rel)
        removed = []
        for k in list(files):
            if k == rel or (d and (k.startswith(d + os.sep))):
                removed.append(os.path.basename(k))
                del files[k]
        return files, {"dir": d, "removed": sorted(set(removed))}
    text = files[rel]
    toks = K.tokens(text)
    if kind == "syntax_token":
        # an illegal token at a seeded token boundary after the preamble
        cands = [a for k, a, b in toks[3:]] or [len(text)]
        pos = rng.choice(cands)
        bad = rng.choice(["$", "#", "~", "`", "?"])
        files[rel] = text[:pos] + bad + " " + text[pos:]
        return files, {"pos": pos, "char": bad}
    if kind == "syntax_torn":
        # cut strictly inside a declaration (brace depth > 0), so the remaining prefix cannot be a valid module
        cands = []
        depth = 0
        for k, a, b in toks:
            if depth > 0:
                cands.append(a)
            if text[a:b] == "{":
                depth += 1
            elif text[a:b] == "}":
                depth -= 1
        pos = rng.choice(cands)
        files[rel] = text[:pos]
        return files, {"pos": pos}
    if kind == "resolve":
        n2 = copy.deepcopy(K.strip_node(node))
        structs = [it for it in n2["items"] if it["kind"] == "struct"]
        tag = f"Nope_{rng.randint(0, 999)}"
        if structs:
            s = rng.choice(structs)
            f = {"name": "ghost", "id": 60 + rng.randint(0, 3), "type": weighted(rng, [(["struct", tag], 3), (["arr", ["struct", tag], 2], 1), (["opt", ["struct", tag]], 1), (["dyn", ["struct", tag]], 1)])}
            s["fields"].insert(rng.randint(0, len(s["fields"])), f)
        else:
            n2["items"].append({"kind": "struct", "name": "RecGhost", "fields": [{"name": "ghost", "id": 0, "type": ["struct", tag]}]})
        # re-render this module only
        decls = [{"kind": "mod", "path": it["node"]["path"]} if it["kind"] == "mod" else it for it in n2["items"]]
        files[rel] = S.render(decls)
        return files, {"type": tag}
    raise ValueError(kind)


def root_path(base: Path, root_rel: str, style: str):
    """How the root file is named to get_fcp: modules must resolve relative to the importing FILE whatever the spelling."""
    if style == "rel":
        os.chdir(base)
        return Path(root_rel)
    if style == "dotdot":
        (base / "zz").mkdir(exist_ok=True)
        return base / "zz" / ".." / root_rel
    if style == "symlink":
        link = base.parent / (base.name + "_link")
        if not link.exists():
            os.symlink(base, link)
        return link / root_rel
    if style == "cwd_elsewhere":
        os.chdir("/")
        return base / root_rel
    return base / root_rel


def judge(par, base: Path, files, root_rel, expect, logger_mode, path_style="abs"):
    """expect: ("same", single_cats) | ("names", basename, extra). Returns (violations, outcome)."""
    K.sync_files(base, files)
    if _LINK[0] and _LINK[0] in files:
        # this module's real file lives outside the root directory; inside the tree there is only a symlink to it
        inside = base / _LINK[0]
        outside = base.parent / ("outside_" + base.name) / os.path.basename(_LINK[0])
        outside.parent.mkdir(parents=True, exist_ok=True)
        if not inside.is_symlink():
            os.replace(inside, outside)
            os.symlink(outside, inside)
    res = par.parse("file", root_path(base, root_rel, path_style), logger_mode)
    out = res["outcome"]
    if out == "hang":
        return [("hang", "parse", res["detail"])], out
    if out == "exception":
        return [("exception_escapes", res.get("orig", res["exc"]), res["detail"])], out
    if out == "bad_result":
        return [("bad_result", "result", res["detail"])], out
    if expect[0] == "same":
        if out != "ok":
            txt, prob = par.render(res)
            return [("split_rejected", "fault_free", f"split tree rejected: {(txt or prob or '')[:300]}")], out
        try:
            got, dup = categories(res["result"].unwrap().to_dict())
        except Exception as e:
            return [("bad_tree", "to_dict", f"{type(e).__name__}: {e}")], out
        want = expect[1]
        v = []
        for cat in ("structs", "enums", "impls", "services", "devices"):
            if got[cat] != want[cat]:
                missing = sorted(set(want[cat]) - set(got[cat]))
                extra = sorted(set(got[cat]) - set(want[cat]))
                differ = sorted(k for k in set(got[cat]) & set(want[cat]) if got[cat][k] != want[cat][k])
                what = "missing" if missing else "extra" if extra else "differ"
                v.append(("split_differs", f"{cat}:{what}",
                          f"{cat}: missing {missing[:4]} extra {extra[:4]} differing {differ[:4]} vs the single-file schema"))
        want_dup = expect[2] if len(expect) > 2 else {}
        if dup != want_dup:
            v.append(("split_differs", "duplicates", f"duplicated entries after merging: {dup} (the single-file schema has {want_dup})"))
        return v, out
    # error expected
    basename, extra = expect[1], expect[2]
    if out == "ok":
        return [("fault_not_reported", expect[3], f"module {basename} is {expect[3]} but parsing returned a schema")], out
    txt, prob = par.render(res)
    hay = (txt or "") + "\n" + chain(res)
    v = []
    if prob is not None:
        v.append(("diagnostic_unrenderable", expect[3], prob))
    alternatives = [basename] + list(expect[4] if len(expect) > 4 else [])
    if not any(b in hay for b in alternatives):
        v.append(("error_does_not_name_module", expect[3], f"error for {expect[3]} module {basename} does not name it"
                                                         f"{' (nor any of ' + str(alternatives[1:]) + ')' if alternatives[1:] else ''}: "
                                                         f"{hay.strip()[:300]!r}"))
    if extra and extra not in hay:
        v.append(("error_does_not_name_type", expect[3], f"error does not name the unresolved type {extra}: {hay.strip()[:300]!r}"))
    return v, out


def tree_shape(root):
    ns = K.nodes_of(root)
    return [max(d for _, d in ns), len(ns), max([len(n["path"]) for n, _ in ns if n["path"]] or [0])]


def mk(v, workload, run=None):
    cls, detail, msg = v
    return {"class": cls, "signature": f"C20:{cls}:{detail}", "message": msg, "run": run, "workload": workload}


_LINK = [None]          # relative path of the module that is a symlink to outside the tree (per run / replay)
_SINGLE_DUP = [{}]      # duplicate-name counts of the last single-file schema (a schema may legally repeat a device name)


def single_cats(par, base: Path, root, style=0):
    src = S.render(K.flatten(root), style)
    K.write_files(base, {"single.fcp": src})
    res = par.parse("file", base / "single.fcp", "fresh")
    if res["outcome"] != "ok":
        txt = par.render(res)[0] if res["outcome"] == "err" else res.get("detail")
        raise RuntimeError(f"single-file rendering rejected ({res['outcome']}): {str(txt)[:500]}\n{src}")
    cats, dup = categories(res["result"].unwrap().to_dict())
    _SINGLE_DUP[0] = dup
    return cats, src


def run_one(seed: int, index: int, tier: str) -> dict:
    run_seed = H(seed, PROPERTY, index)
    tr = Trace()
    probes = Counter()
    faults = Counter()
    distinct = set()
    res = {"index": index, "violations": [], "evals": 0, "harness_errors": []}
    rng = stream(run_seed, "schema")
    wide = stream(run_seed, "swarm_wide")
    nwide = wide.randint(30, 48) if wide.random() < 0.03 else 0
    root = K.gen_tree(rng, wide=nwide)
    rf = stream(run_seed, "faults")
    logger_mode = stream(run_seed, "swarm").choice(["fresh", "shared", "default"])
    par = K.Parser()
    nodes = K.nodes_of(root)
    rs3 = stream(run_seed, "swarm3")
    style = rs3.randrange(8) + 8 * (stream(run_seed, "swarm_style").random() < 0.3)
    files = K.tree_files(root, style)
    if nwide:
        probes["wide_tree_over_30_modules"] += 1
    # line endings are a property of each FILE: some modules (or the root) come with CRLF or CR-only endings
    for rel in sorted(files):
        if rs3.random() < 0.12:
            files[rel] = files[rel].replace("\n", rs3.choice(["\r\n", "\r\n", "\r"]))
            probes["file_with_crlf_or_cr_endings"] += 1
    # one module may live outside the root's directory tree and be reached through a symlink
    link_rel = None
    leaves = sorted(n["file"] for n, _ in nodes[1:] if not any(it["kind"] == "mod" for it in n["items"]))
    if leaves and rs3.random() < 0.15:
        # only a module that imports nothing itself: where the imports of a symlinked file resolve (next to the link or
        # next to its target) is not fixed by the property
        link_rel = rs3.choice(leaves)
        probes["module_is_symlink_to_outside"] += 1
    shape = tree_shape(root)
    # probes
    bn = Counter(os.path.basename(n["file"]) for n, _ in nodes)
    if any(c > 1 for c in bn.values()):
        probes["two_modules_same_basename"] += 1
    for n, d in nodes[1:]:
        if d == 3:
            probes["depth3_module"] += 1
        if len(n["path"]) == 3:
            probes["dotted_path_3"] += 1
        for it in n["items"]:
            if it["kind"] in ("service", "device", "impl", "enum"):
                probes[f"{it['kind']}_in_module"] += 1
    for n, d in nodes:
        own = set()
        for it in n["items"]:
            if it["kind"] == "mod":
                for it2 in it["node"]["items"]:
                    if it2["kind"] == "mod":
                        own.update(it2["node"]["exports"]["structs"])
        for it in n["items"]:
            if it["kind"] == "struct" and any(nm in own for nm in _refs(it)):
                probes["module_uses_grandchild_decl"] += 1
    _LINK[0] = link_rel
    with Scratch("c20") as base:
        try:
            want, single_src = single_cats(par, base, root, style)
        except RuntimeError as e:
            res["harness_errors"].append(f"run {index}: {e}")
            res["digest"] = "x"
            return res
        tree_json = K.strip_node(root)
        # all configurations of the run live in ONE directory that is modified in place (a long-lived process re-reading
        # files a crash or an editor changed under it); a share of runs uses a fresh directory per configuration instead
        inplace = stream(run_seed, "swarm2").random() < 0.7
        if inplace:
            probes["configurations_in_place"] += 1
        prev = []
        # fault-free
        sub = base / "tree" if inplace else base / "t0"
        path_style = stream(run_seed, "swarm2b").choice(["abs", "abs", "rel", "dotdot", "symlink", "cwd_elsewhere"])
        probes["root_path:" + path_style] += 1
        v, out = judge(par, sub, files, "main.fcp", ("same", want, dict(_SINGLE_DUP[0])), logger_mode, path_style)
        prev.append(files)
        res["evals"] += 1
        tr.add("clean", outcome=out, v=[x[:2] for x in v])
        for x in v:
            res["violations"].append(mk(x, {"tree": tree_json, "fault": None, "logger": logger_mode, "history": [],
                                            "path_style": path_style, "files": files, "link": link_rel}, index))
        if len(nodes) > 1:
            distinct.add(short([shape, "clean"]))
        # one fault per module and kind
        k = 0
        fault_nodes = nodes[1:]
        if nwide:
            # a wide tree costs a second per parse: faults in a seeded sample of three modules only
            fault_nodes = sorted(wide.sample(fault_nodes, 3), key=lambda nd: nd[0]["file"])
        for n, d in fault_nodes:
            for kind in ("missing", "missing_dir", "syntax_token", "syntax_torn", "resolve"):
                if kind == "missing_dir" and not os.path.dirname(n["file"]):
                    continue
                if len(res["violations"]) >= 4 or any(x["class"] == "hang" for x in res["violations"]):
                    break          # a broken tree must not spend the batch's budget on 20 s watchdog expiries
                k += 1
                ffiles, detail = make_fault(rf, n, kind, files)
                sub = base / "tree" if inplace else base / f"t{k}"
                bname = os.path.basename(n["file"])
                v, out = judge(par, sub, ffiles, "main.fcp", ("names", bname, detail.get("type"), kind, detail.get("removed", [])), logger_mode, path_style)
                # what a replay must re-create in the same directory and process: the fault-free tree the run started
                # with, then the two configurations before this one
                hist = ([prev[0]] + [h for h in prev[-2:] if h is not prev[0]]) if inplace else []
                prev.append(ffiles)
                res["evals"] += 1
                faults[kind] += 1
                if kind == "missing" and d == 3:
                    probes["missing_at_depth3"] += 1
                distinct.add(short([shape, d, len(n["path"]), kind, sorted({it["kind"] for it in n["items"]})]))
                tr.add("fault", file=n["file"], fkind=kind, detail=detail, outcome=out, v=[x[:2] for x in v])
                for x in v:
                    res["violations"].append(mk(x, {"tree": tree_json, "fault": {"file": n["file"], "kind": kind,
                                                                                  "text": ffiles.get(n["file"])},
                                                    "logger": logger_mode, "expect_type": detail.get("type"),
                                                    "removed": detail.get("removed", []),
                                                    "history": hist, "path_style": path_style, "files": files, "link": link_rel}, index))
        # the process has now parsed this tree many times: the fault-free tree must STILL equal the single-file schema
        if len(res["violations"]) < 4:
            sub = base / "tree" if inplace else base / "tz"
            v, out = judge(par, sub, files, "main.fcp", ("same", want, dict(_SINGLE_DUP[0])), logger_mode, path_style)
            res["evals"] += 1
            probes["fault_free_reparsed_at_end"] += 1
            hist = ([prev[0]] + [h for h in prev[-2:] if h is not prev[0]]) if inplace else [files]
            tr.add("clean_again", outcome=out, v=[x[:2] for x in v])
            for x in v:
                res["violations"].append(mk(x, {"tree": tree_json, "fault": None, "logger": logger_mode, "history": hist,
                                                "path_style": path_style, "files": files, "link": link_rel}, index))
    res["digest"] = tr.digest()
    res["probes"] = probes
    res["faults"] = faults
    res["distinct"] = distinct
    res["sample"] = {"files": files, "single_file": single_src, "faults": "missing/syntax_token/syntax_torn/resolve on each of "
                     + str([n["file"] for n, _ in nodes[1:]])} if index % 200 == 0 else None
    return res


def _refs(struct):
    out = []

    def w(t):
        if t[0] == "struct":
            out.append(t[1])
        elif t[0] in ("arr", "dyn", "opt"):
            w(t[1])

    for f in struct["fields"]:
        w(f["type"])
    return out


# ---------------------------------------------------------------------------


def relink(node):
    """Rebuild 'exports'-free nodes loaded from JSON into the shape nodes_of/flatten expect."""
    return node


def check_workload(w):
    root = w["tree"]
    par = K.Parser()
    files = w.get("files") or K.tree_files(root)
    _LINK[0] = w.get("link")
    out = []
    with Scratch("c20r") as base:
        want, _ = single_cats(par, base, root)
        # earlier configurations of the same directory, parsed by the same process (not judged)
        for hf in w.get("history", []):
            K.sync_files(base / "t", hf)
            par.parse("file", root_path(base / "t", "main.fcp", w.get("path_style", "abs")), w.get("logger", "fresh"))
        if w["fault"] is None:
            v, _ = judge(par, base / "t", files, "main.fcp", ("same", want, dict(_SINGLE_DUP[0])), w.get("logger", "fresh"), w.get("path_style", "abs"))
        else:
            f = w["fault"]
            ff = dict(files)
            if f["kind"] == "missing":
                ff.pop(f["file"], None)
            elif f["kind"] == "missing_dir":
                d_ = os.path.dirname(f["file"])
                for k_ in list(ff):
                    if k_ == f["file"] or (d_ and k_.startswith(d_ + os.sep)):
                        del ff[k_]
            else:
                ff[f["file"]] = f["text"]
            v, _ = judge(par, base / "t", ff, "main.fcp",
                         ("names", os.path.basename(f["file"]), w.get("expect_type"), f["kind"], w.get("removed", [])), w.get("logger", "fresh"),
                         w.get("path_style", "abs"))
        for x in v:
            out.append(mk(x, w))
    return out


def replay(workload):
    return check_workload(workload)


def minimise(v):
    """Drop declarations (and whole sub-modules) that the violation does not need."""
    w = v["workload"]
    key = v["signature"]

    def fails(tree):
        ww = dict(w, tree=tree, files=None)       # files re-rendered from the candidate tree
        try:
            return any(x["signature"] == key for x in pristine(check_workload, ww))
        except Exception:
            return False

    tree = copy.deepcopy(w["tree"])
    if w["fault"] is not None and w["fault"]["kind"] != "missing":
        # the faulted file's text is explicit; only other files may shrink
        keep_file = w["fault"]["file"]
    else:
        keep_file = None
    budget = [60]

    def shrink(node):
        i = len(node["items"]) - 1
        while i >= 0 and budget[0] > 0:
            it = node["items"][i]
            if node["file"] != keep_file or it["kind"] == "mod":
                if not (it["kind"] == "mod" and keep_file and _contains(it["node"], keep_file)) and \
                        not (it["kind"] == "mod" and w["fault"] and _contains(it["node"], w["fault"]["file"])):
                    saved = node["items"].pop(i)
                    budget[0] -= 1
                    if not fails(tree):
                        node["items"].insert(i, saved)
            i -= 1
        for it in node["items"]:
            if it["kind"] == "mod":
                shrink(it["node"])

    shrink(tree)
    out = dict(v, workload=dict(w, tree=tree, files=None), minimised=True)
    vs = [x for x in pristine(check_workload, out["workload"]) if x["signature"] == key]
    if vs:
        out["message"] = vs[0]["message"]
        return out
    return v


def _contains(node, file):
    if node["file"] == file:
        return True
    return any(_contains(it["node"], file) for it in node["items"] if it["kind"] == "mod")
