"""fcp_simgen — a third-party generator plug-in owned by the simulator (stub, not part of the repository).

GeneratorManager discovers any importable module called fcp_<name>, so putting this directory on sys.path makes
`generate simgen ...` a legal command.  It lets gensim register checks in EVERY verifier category (struct, field,
enum, impl, signal_block, type, device), several per category, each rejecting the node whose name is listed in
CONFIG - the part of C10's configuration space ("which check fails: any category, any position, general or
plug-in") that the four shipped plug-ins do not reach.
"""

import json
from pathlib import Path

from fcp.codegen import CodeGenerator
from fcp.verifier import register
from fcp.result import Ok
from fcp.error import error

# set by the harness before each command: list of (category, rejected node name or None)
CONFIG = {"checks": []}


def _name(category, node):
    if category == "field":
        return node[1].name
    return getattr(node, "name", None)


class Generator(CodeGenerator):
    def __init__(self) -> None:
        pass

    def generate(self, fcp, ctx):
        out = Path(ctx.get("output"))
        d = fcp.to_dict()
        return [
            {"type": "file", "path": out / "simgen_lists" / "enums.txt", "contents": "\n".join(e["name"] for e in d.get("enums", []))},
            {"type": "file", "path": out / "simgen.json", "contents": json.dumps(d, indent=1, sort_keys=True)},
            {"type": "file", "path": out / "simgen_names.txt", "contents": "\n".join(s["name"] for s in d.get("structs", []))},
            # the same path returned a second time with other contents: the last returned contents are what must be on disk
            {"type": "file", "path": out / "simgen_names.txt", "contents": "\n".join(sorted(s["name"] for s in d.get("structs", []))) + "\n# sorted\n"},
            {"type": "print", "contents": f"simgen: {len(d.get('structs', []))} structs"},
        ]

    def register_checks(self, verifier):
        for entry in CONFIG["checks"]:
            category, target = entry[0], entry[1]
            style = entry[2] if len(entry) > 2 else "return"

            def make(category=category, target=target, style=style):
                def check(self_, fcp, node):
                    if target is not None and _name(category, node) == target:
                        err = error(f"simgen {category} check rejects {target}", node=None)
                        if style == "attempt":
                            err.attempt()          # rejects by propagating the error, like code inside a @catch function
                        return err
                    return Ok(())
                return check
            register(verifier, category)(make())
