"""wiresim — C16: sender -> faulty byte channel -> fcp.serde.decode.

Real code: fcp.parser (schema), fcp.serde.decode (and encode as one of two
sources of valid messages).  Stub: the channel (owned by the simulator: cuts at
every byte boundary, inflated length prefixes, set presence flags), an
independent reference codec for the canonical format (checked against the
project's cross-language vectors at start-up) that decides whether a faulted
byte string is "shorter than what it announces".
Work is measured in line events executed inside src/fcp/serde.py (sys.settrace).
"""

from __future__ import annotations

import json
import math
import os
import resource
import struct
import sys
from collections import Counter

from .kit import pristine, H, Trace, repo_root, setup_repo_path, short, stream, weighted
from .gen import schema as S

PROPERTY = "C16"
ENGINE = "wiresim"
LEVEL = "fault_enumeration"
RULE = ("one run = one seeded schema (structs over u/i 1..64, f32, f64, str, fixed arrays, dynamic arrays, optionals, "
        "nested structs, depth <= 3) x several in-range values; every valid message (gate: the real decoder returns the "
        "intended value for the complete bytes) is delivered through cut(k) for EVERY byte boundary 0 <= k < n, "
        "inflate(p, L) for every length prefix p and L in {len+1, len+255, 2^16, 2^31, 2^32-1} (alone and followed by a cut), "
        "flag_set for every absent optional, and single flipped bits (every bit of one prefix plus four anywhere) when "
        "the reference decoder says the result announces more than is there; evaluations = faulted deliveries judged; distinct_nontrivial counts distinct "
        "(type-tree signature, fault kind, kind of wire element the fault lands in) triples where the fault lands in or "
        "before a variable-size payload (string/dynamic-array payload or prefix, optional)")
COMPONENTS = {
    "real": ["fcp.parser.get_fcp_from_string", "fcp.serde.decode", "fcp.serde.encode (one of two message sources)"],
    "stub": ["byte channel with fault injection", "reference canonical encoder/decoder (oracle for 'announces more than is there')",
             "sys.settrace line counter as the work clock", "RLIMIT_AS as allocation fault detector"],
}
ASSUMPTIONS = [
    "a message is used only if the real decoder round-trips it when complete (keeps the check independent of C01/C02)",
    "enums are not generated (fcp.serde has no enum support); element types of dynamic arrays have non-zero minimum size",
    "work = python line events inside src/fcp/serde.py; budget 20000 + 2000 x len(input); address space may grow by at most 96 MiB during one decode",
    "both the Python codec and the reference codec walk struct fields in declaration order (id order vs declaration order is C15's business); ids may be out of order",
]
TIERS = {
    "quick": {"runs": 640, "chunk": 8, "wall": 90, "chunk_timeout": 300, "selftest": 6, "values": 4},
    "thorough": {"runs": 12000, "chunk": 30, "wall": 800, "chunk_timeout": 600, "selftest": 8, "values": 6},
}
ISOLATE_RUNS = True
OPTIMIZE_SHARE = 0.04      # this share of the runs executes under `python -O`


def preload():
    setup_repo_path()
    import importlib
    for m in ("fcp.parser", "fcp.error", "fcp.serde"):
        importlib.import_module(m)


EXPECTED_PROBES = {
    "quick": ["cut_in_str_payload", "cut_in_last_str_payload", "inflate_str", "inflate_dyn", "cut_in_float", "flag_set", "flip_made_message_short", "retry_same_buffer_object", "long_message_sampled_cuts",
              "str_at_unaligned_offset", "vectors_checked"],
    "thorough": ["cut_in_str_payload", "cut_in_last_str_payload", "inflate_str", "inflate_dyn", "cut_in_float", "flag_set", "flip_made_message_short", "retry_same_buffer_object", "long_message_sampled_cuts",
                 "str_at_unaligned_offset", "vectors_checked"],
}
PAGE = os.sysconf("SC_PAGE_SIZE")
ALLOC_SLACK = 96 << 20
INFLATE = [("len+1", None), ("len+255", None), ("2^16", 1 << 16), ("2^31", 1 << 31), ("2^32-1", (1 << 32) - 1)]


# ---------------------------------------------------------------------------
# reference codec for the canonical wire format (written from the format description)


class Truncated(Exception):
    pass


class RefEnc:
    def __init__(self, structs):
        self.structs = structs
        self.acc = 0
        self.n = 0
        self.spans = []      # (bit_start, bit_end, kind)
        self.prefixes = []   # (bit_start, value, kind)  kind in {"str", "dyn"}
        self.flags = []      # (bit_start, value)

    def push(self, word, bits, kind):
        self.spans.append((self.n, self.n + bits, kind))
        self.acc |= (word & ((1 << bits) - 1)) << self.n
        self.n += bits

    def enc(self, t, v):
        k = t[0]
        if k in ("u", "i"):
            self.push(v, t[1], "int")
        elif k == "f32":
            self.push(int.from_bytes(struct.pack("<f", v), "little"), 32, "float")
        elif k == "f64":
            self.push(int.from_bytes(struct.pack("<d", v), "little"), 64, "float")
        elif k == "str":
            self.prefixes.append((self.n, len(v), "str"))
            self.push(len(v), 32, "str_prefix")
            for ch in v:
                self.push(ord(ch), 8, "str_payload")
        elif k == "struct":
            for f in self.structs[t[1]]["fields"]:
                self.enc(f["type"], v[f["name"]])
        elif k == "arr":
            for x in v:
                self.enc(t[1], x)
        elif k == "dyn":
            self.prefixes.append((self.n, len(v), "dyn"))
            self.push(len(v), 32, "dyn_prefix")
            for x in v:
                self.enc(t[1], x)
        elif k == "opt":
            self.flags.append((self.n, 0 if v is None else 1))
            self.push(0 if v is None else 1, 8, "opt_flag")
            if v is not None:
                self.enc(t[1], v)
        elif k == "enum":
            self.push(v, S.enum_bits(max(x for _, x in self.enums[t[1]]["values"])), "enum")
        else:
            raise ValueError(t)

    def bytes(self):
        return self.acc.to_bytes((self.n + 7) // 8, "little")


def ref_encode(structs, name, value, enums=None):
    e = RefEnc(structs)
    e.enums = enums or {}
    e.enc(["struct", name], value)
    return e


class RefDec:
    """Strictly bounds-checked decoder: raises Truncated iff the bytes end before the value they announce does."""

    def __init__(self, structs, data, enums=None):
        self.structs = structs
        self.enums = enums or {}
        self.v = int.from_bytes(data, "little")
        self.total = 8 * len(data)
        self.pos = 0
        self.steps = 0

    def read(self, bits):
        if self.pos + bits > self.total:
            raise Truncated()
        w = (self.v >> self.pos) & ((1 << bits) - 1)
        self.pos += bits
        return w

    def dec(self, t):
        self.steps += 1
        k = t[0]
        if k == "u":
            return self.read(t[1])
        if k == "i":
            w = self.read(t[1])
            return w - (1 << t[1]) if w >> (t[1] - 1) else w
        if k == "f32":
            return struct.unpack("<f", self.read(32).to_bytes(4, "little"))[0]
        if k == "f64":
            return struct.unpack("<d", self.read(64).to_bytes(8, "little"))[0]
        if k == "str":
            n = self.read(32)
            if self.pos + 8 * n > self.total:
                raise Truncated()
            return "".join(chr(self.read(8)) for _ in range(n))
        if k == "struct":
            return {f["name"]: self.dec(f["type"]) for f in self.structs[t[1]]["fields"]}
        if k == "arr":
            return [self.dec(t[1]) for _ in range(t[2])]
        if k == "dyn":
            n = self.read(32)
            if self.pos + n * min_bits(t[1], self.structs) > self.total:
                raise Truncated()
            return [self.dec(t[1]) for _ in range(n)]
        if k == "opt":
            return self.dec(t[1]) if self.read(8) != 0 else None
        if k == "enum":
            return self.read(S.enum_bits(max(x for _, x in self.enums[t[1]]["values"])))
        raise ValueError(t)


def min_bits(t, structs) -> int:
    k = t[0]
    if k in ("u", "i"):
        return t[1]
    if k == "f32":
        return 32
    if k == "f64":
        return 64
    if k in ("str", "dyn"):
        return 32
    if k == "opt":
        return 8
    if k == "enum":
        return 1
    if k == "arr":
        return t[2] * min_bits(t[1], structs)
    if k == "struct":
        return sum(min_bits(f["type"], structs) for f in structs[t[1]]["fields"])
    raise ValueError(t)


def ref_too_short(structs, name, data) -> bool:
    try:
        RefDec(structs, data).dec(["struct", name])
        return False
    except Truncated:
        return True


_VECTORS_OK = None


def check_vectors():
    """The reference codec must reproduce the project's cross-language vectors (start-up self-check)."""
    global _VECTORS_OK
    if _VECTORS_OK is not None:
        return _VECTORS_OK
    root = repo_root() / "tests" / "standardized"
    n = 0
    suites = json.loads((root / "fcp_tests.json").read_text())
    schemas = {
        "001_basic_values.fcp": (
            {f"S{i}": {"fields": [{"name": "s0", "type": [a, w]}, {"name": "s1", "type": [b, w]}]}
             for i, (a, b, w) in enumerate([("u", "i", 8), ("u", "i", 16), ("u", "i", 32), ("u", "i", 64)], 1)}
            | {"S5": {"fields": [{"name": "s0", "type": ["f32"]}, {"name": "s1", "type": ["f64"]}]},
               "S6": {"fields": [{"name": "s1", "type": ["enum", "E"]}]},
               "S7": {"fields": [{"name": "s1", "type": ["arr", ["u", 8], 4]}]},
               "S8": {"fields": [{"name": "s1", "type": ["arr", ["u", 16], 4]}]},
               "S9": {"fields": [{"name": "s1", "type": ["arr", ["enum", "E"], 4]}]}}),
        "002_optional_features.fcp": {
            "S1": {"fields": [{"name": "s1", "type": ["str"]}]},
            "S2": {"fields": [{"name": "s1", "type": ["dyn", ["u", 8]]}]},
            "S3": {"fields": [{"name": "s1", "type": ["dyn", ["enum", "E"]]}]},
            "S4": {"fields": [{"name": "s1", "type": ["opt", ["u", 8]]}]}},
    }
    enums = {"E": {"values": [["S0", 0], ["S1", 1], ["S2", 2]]}}
    consts = {"ULONG_MAX": (1 << 64) - 1, "LLONG_MAX": (1 << 63) - 1, "LLONG_MIN": -(1 << 63)}

    def conv(t, x):
        if isinstance(x, list):
            return [conv(t[1], y) for y in x]
        if t[0] == "opt":
            return None if x is None else conv(t[1], x)
        if t[0] == "enum":
            return dict(enums[t[1]]["values"])[x]
        if t[0] in ("f32", "f64"):
            return float(x)
        if t[0] == "str":
            return x
        return consts[x] if x in consts else int(x, 0)

    for suite in suites:
        structs = schemas[suite["schema"]]
        for case in suite["tests"]:
            st = structs[case["datatype"]]
            val = {f["name"]: conv(f["type"], case["decoded"][f"{case['datatype']}:{f['name']}"]) for f in st["fields"]}
            want = bytes(int(b, 0) if isinstance(b, str) else b for b in case["encoded"])
            got = ref_encode(structs, case["datatype"], val, enums).bytes()
            if got != want:
                raise RuntimeError(f"reference encoder disagrees with vector {case['name']}: {got.hex()} != {want.hex()}")
            d = RefDec(structs, want, enums)
            back = d.dec(["struct", case["datatype"]])
            if back != val:
                raise RuntimeError(f"reference decoder disagrees with vector {case['name']}: {back} != {val}")
            n += 1
    _VECTORS_OK = n
    return n


# ---------------------------------------------------------------------------
# workload generation


def gen_type(rng, depth, structs_so_far, allow_var=True, prefer=None):
    opts = [("int", 6), ("float", 1.5)]
    if allow_var:
        opts += [("str", 2.5), ("dyn", 2 if depth < 3 else 0), ("opt", 1.5 if depth < 3 else 0)]
    if depth < 3:
        opts.append(("arr", 1.5))
        if structs_so_far:
            opts.append(("struct", 1.5 if allow_var else 4))
    k = weighted(rng, opts)
    if k == "int":
        w = weighted(rng, [(8, 4), (16, 2), (32, 2), (64, 2), (rng.randint(1, 64), 6), (1, 1), (7, 1), (63, 1),
                           (rng.randint(65, 99), 0.5)])        # the grammar takes two digits: u65..u99 exist
        return [rng.choice("ui"), w]
    if k == "float":
        return [rng.choice(["f32", "f64"])]
    if k == "str":
        return ["str"]
    if k == "dyn":
        return ["dyn", gen_type(rng, depth + 1, structs_so_far, allow_var, prefer)]
    if k == "opt":
        return ["opt", gen_type(rng, depth + 1, structs_so_far, allow_var, prefer)]
    if k == "arr":
        size = weighted(rng, [(rng.randint(1, 4), 8), (rng.choice([31, 32, 33, 40, 64]), 0.4 if depth == 1 else 0)])
        return ["arr", gen_type(rng, depth + 1, structs_so_far, allow_var if size < 10 else False, prefer), size]
    if prefer and rng.random() < 0.6:
        return ["struct", rng.choice(prefer)]      # the same nested struct type again (accel: Vec3, gyro: Vec3)
    name = rng.choice(structs_so_far)
    if prefer is not None:
        prefer.append(name)
    return ["struct", name]


def gen_schema(rng):
    ns = weighted(rng, [(1, 4), (2, 4), (3, 2)])
    decls = []
    names = []
    words = rng.sample(range(len(S.PASCAL)), ns)
    aligned_only = rng.random() < 0.35     # swarm: byte-aligned shapes reach deeper through the gate today
    fixed_only = rng.random() < 0.2        # swarm: fully fixed layouts (no string / dynamic array / optional anywhere)
    for si in range(ns):
        nf = rng.randint(1, 5)
        fields = []
        fwords = rng.sample(S.WORDS, nf)
        used_structs = []
        for fi in range(nf):
            t = gen_type(rng, 1, names, allow_var=not fixed_only, prefer=used_structs)
            if aligned_only and t[0] in ("u", "i"):
                t = [t[0], rng.choice([8, 16, 32, 64])]
            fields.append({"name": fwords[fi], "id": fi, "type": t})
        # bias: a string / dynamic array in last position
        if not fixed_only and rng.random() < 0.45:
            fields[-1]["type"] = weighted(rng, [(["str"], 3), (["dyn", ["u", 8]], 1), (["dyn", ["str"]], 1),
                                                 (["opt", ["str"]], 1), (["arr", ["str"], 2], 1)])
        if rng.random() < 0.07:
            # a long fixed array of integers in LAST position (nothing after it re-checks the end of the input)
            fields[-1]["type"] = ["arr", [rng.choice("ui"), rng.choice([2, 8, 12, 16, 33])], rng.choice([32, 40, 64])]
        if rng.random() < 0.25 and len(fields) > 1:
            # ids not in declaration order: the Python codec (and the reference codec here) walk the fields as declared
            for f, i_ in zip(fields, rng.sample(range(0, 2 * len(fields) + 1), len(fields))):
                f["id"] = i_
        name = f"Rec{S.PASCAL[words[si]]}{si}"
        decls.append({"kind": "struct", "name": name, "fields": fields})
        names.append(name)
    return decls, names[-1]


def f32(x):
    return struct.unpack("<f", struct.pack("<f", x))[0]


def gen_value(rng, t, structs, depth=0):
    k = t[0]
    if k == "u":
        w = t[1]
        return rng.choice([0, 1, (1 << w) - 1, (1 << w) >> 1, rng.randrange(1 << w)])
    if k == "i":
        w = t[1]
        lo, hi = -(1 << (w - 1)), (1 << (w - 1)) - 1
        return rng.choice([0, -1 if w > 1 else 0, hi, lo, lo + 1 if w > 1 else lo, rng.randint(lo, hi)])
    if k == "f32":
        return rng.choice([0.0, 1.0, -1.0, f32(rng.uniform(-1e6, 1e6)), f32(1e-30), float("inf")])
    if k == "f64":
        return rng.choice([0.0, 1.0, -1.0, rng.uniform(-1e12, 1e12), 5e-324, float("-inf")])
    if k == "str":
        n = weighted(rng, [(0, 2), (1, 2), (rng.randint(2, 12), 5), (rng.randint(13, 40), 1.5), (rng.randint(100, 300), 0.3),
                           (rng.choice([255, 256, 257, 511, 512, 513, 1024]), 0.1)])
        alphabet = "abcdefghijklmnopqrstuvwxyz ABCXYZ0123456789_-\x00\x7f"
        return "".join(rng.choice(alphabet) for _ in range(n))
    if k == "struct":
        return {f["name"]: gen_value(rng, f["type"], structs, depth + 1) for f in structs[t[1]]["fields"]}
    if k == "arr":
        return [gen_value(rng, t[1], structs, depth + 1) for _ in range(t[2])]
    if k == "dyn":
        n = weighted(rng, [(0, 2), (1, 2), (rng.randint(2, 5), 4), (rng.randint(6, 12), 0.5 if depth < 2 else 0)])
        return [gen_value(rng, t[1], structs, depth + 1) for _ in range(n)]
    if k == "opt":
        return None if rng.random() < 0.4 else gen_value(rng, t[1], structs, depth + 1)
    raise ValueError(t)


def same_value(a, b) -> bool:
    if isinstance(a, float) and isinstance(b, float):
        return struct.pack("<d", a) == struct.pack("<d", b)
    if isinstance(a, dict) and isinstance(b, dict):
        return list(a) == list(b) and all(same_value(a[k], b[k]) for k in a)
    if isinstance(a, list) and isinstance(b, list):
        return len(a) == len(b) and all(same_value(x, y) for x, y in zip(a, b))
    if isinstance(a, bool) or isinstance(b, bool):
        return False
    return type(a) is type(b) and a == b


def type_sig(t, structs, depth=0):
    k = t[0]
    if k in ("u", "i"):
        return k + ("8n" if t[1] % 8 == 0 else "x")
    if k in ("f32", "f64", "str"):
        return k
    if k == "struct":
        return "{" + ",".join(type_sig(f["type"], structs, depth + 1) for f in structs[t[1]]["fields"]) + "}"
    if k == "arr":
        return "[" + type_sig(t[1], structs, depth + 1) + ";n]"
    return k + "<" + type_sig(t[1], structs, depth + 1) + ">"


# ---------------------------------------------------------------------------
# the receiver under a work clock


class WorkExceeded(BaseException):
    pass


class Receiver:
    def __init__(self):
        setup_repo_path()
        import fcp.serde as serde
        self.serde = serde
        self.path = serde.__file__
        self.count = 0
        self.budget = 0

    def _local(self, frame, event, arg):
        if event == "line":
            self.count += 1
            if self.count > self.budget:
                raise WorkExceeded()
        return self._local

    def _global(self, frame, event, arg):
        if event == "call" and frame.f_code.co_filename == self.path:
            return self._local
        return None

    @staticmethod
    def _vm_bytes():
        with open("/proc/self/statm") as f:
            return int(f.read().split()[0]) * PAGE

    def decode(self, fcp, name, data):
        """Returns (outcome, payload, work): outcome in value|error|work|memory.

        Work clock: line events inside serde.py.  Allocation fault detector: the address
        space may grow by at most ALLOC_SLACK during one decode (soft RLIMIT_AS), so a
        count-sized pre-allocation becomes a MemoryError instead of an OOM kill."""
        self.count = 0
        self.budget = 20000 + 2000 * len(data)
        soft, hard = resource.getrlimit(resource.RLIMIT_AS)
        try:
            resource.setrlimit(resource.RLIMIT_AS, (self._vm_bytes() + ALLOC_SLACK, hard))
        except (ValueError, OSError):
            pass
        sys.settrace(self._global)
        try:
            v = self.serde.decode(fcp, name, bytearray(data))
            return "value", v, self.count
        except WorkExceeded:
            return "work", None, self.count
        except (MemoryError, RecursionError) as e:
            return "memory", type(e).__name__, self.count
        except Exception as e:
            return "error", type(e).__name__, self.count
        finally:
            sys.settrace(None)
            try:
                resource.setrlimit(resource.RLIMIT_AS, (soft, hard))
            except (ValueError, OSError):
                pass

    def decode_twice_same_object(self, fcp, name, data):
        """A caller that retries with the very same bytearray object after an error (C16 says nothing about the buffer
        being consumed): returns the outcome of the SECOND decode."""
        buf = bytearray(data)
        first = self._decode_obj(fcp, name, buf)
        second = self._decode_obj(fcp, name, buf)
        return first, second, bytes(buf) != bytes(data)

    def _decode_obj(self, fcp, name, buf):
        self.count = 0
        self.budget = 20000 + 2000 * max(len(buf), 1)
        sys.settrace(self._global)
        try:
            v = self.serde.decode(fcp, name, buf)
            return "value", v
        except WorkExceeded:
            return "work", None
        except (MemoryError, RecursionError) as e:
            return "memory", type(e).__name__
        except Exception as e:
            return "error", type(e).__name__
        finally:
            sys.settrace(None)

    def decode_untraced(self, fcp, name, data):
        try:
            return "value", self.serde.decode(fcp, name, bytearray(data))
        except Exception as e:
            return "error", type(e).__name__

    def encode(self, fcp, name, value):
        try:
            return bytes(self.serde.encode(fcp, name, value))
        except Exception:
            return None


def parse_schema(decls):
    setup_repo_path()
    from fcp.parser import get_fcp_from_string
    from fcp.error import Logger
    src = S.render(decls)
    r = get_fcp_from_string(src, Logger({}))
    if r.is_err():
        raise RuntimeError("generated schema rejected: " + repr(r.err()) + "\n" + src)
    return r.unwrap(), src


def landing(spans, bit):
    for a, b, kind in spans:
        if a <= bit < b:
            return kind
    return "end"


def apply_fault(data: bytes, fault):
    """fault: ["cut", k] | ["inflate", bit, L, cut_or_None] | ["flag_set", bit, cut_or_None]"""
    if fault and fault[-1] == "retry":
        fault = fault[:-1]
    if fault[0] == "cut":
        return data[:fault[1]]
    if fault[0] == "none":
        return data
    v = int.from_bytes(data, "little")
    if fault[0] == "inflate":
        _, bit, L, cut = fault
        v = (v & ~(((1 << 32) - 1) << bit)) | (L << bit)
    elif fault[0] == "flip":          # one flipped bit (inside a length prefix or anywhere in the image)
        _, bit, cut = fault
        v ^= 1 << bit
    else:
        _, bit, cut = fault
        v = (v & ~(0xFF << bit)) | (1 << bit)
    out = v.to_bytes(len(data), "little")
    return out if cut is None else out[:cut]


VARKINDS = ("str_prefix", "str_payload", "dyn_prefix", "opt_flag")


def judge_delivery(rx, fcp, structs, name, data, fault, spans, sig, probes, distinct):
    """Returns (violation tuple or None, outcome)."""
    bad = apply_fault(data, fault)
    if fault[0] == "cut":
        short_ = True
        land = landing(spans, 8 * fault[1])
    else:
        short_ = ref_too_short(structs, name, bad)
        land = landing(spans, fault[1])
    if not short_:
        return None, "complete"
    outcome, payload, work = rx.decode(fcp, name, bad)
    later_var = any(k in VARKINDS for a, b, k in spans if b > (8 * fault[1] if fault[0] == "cut" else fault[1]))
    if land in VARKINDS or later_var:
        distinct.add(short([sig, fault[0], land]))
    if outcome == "error":
        return None, outcome
    if outcome == "value":
        return ("fabricated_value", land, f"decode returned {str(payload)[:120]!r} for {len(bad)} of {len(data)} bytes"), outcome
    return ("unbounded_work", land, f"decode of {len(bad)} bytes exceeded its work budget ({outcome}: {payload}, {work} lines)"), outcome


def run_one(seed: int, index: int, tier: str) -> dict:
    run_seed = H(seed, PROPERTY, index)
    tr = Trace()
    probes = Counter()
    faults = Counter()
    stats = Counter()
    distinct = set()
    res = {"index": index, "violations": [], "evals": 0, "harness_errors": []}
    debug_logging = stream(run_seed, "ambient").random() < 0.15
    if debug_logging:
        # the hosting application runs with its root logger at DEBUG (this run owns its process: a pristine fork)
        from .kit import set_debug_logging
        set_debug_logging()
        probes["root_logger_at_DEBUG"] += 1
    try:
        res = _run_one(seed, index, tier, run_seed, tr, probes, faults, stats, distinct, res)
    finally:
        if debug_logging:
            for v in res["violations"]:
                v["workload"]["logging"] = "debug"
    return res


def _run_one(seed, index, tier, run_seed, tr, probes, faults, stats, distinct, res):
    try:
        check_vectors()
        probes["vectors_checked"] += 1
    except Exception as e:
        res["harness_errors"].append(f"reference codec self-check failed: {e}")
        res["digest"] = "x"
        return res
    rx = Receiver()
    decls, top = gen_schema(stream(run_seed, "schema"))
    _, structs = S.index(decls)
    try:
        fcp, src = parse_schema(decls)
    except RuntimeError as e:
        res["harness_errors"].append(str(e))
        res["digest"] = "x"
        return res
    sig = type_sig(["struct", top], structs)
    tr.add("schema", src=src)
    rv = stream(run_seed, "values")
    rf = stream(run_seed, "faults")
    sample = None
    for vi in range(TIERS[tier]["values"]):
        value = gen_value(rv, ["struct", top], structs)
        ref = ref_encode(structs, top, value)
        msgs = [("ref", ref.bytes())]
        real = rx.encode(fcp, top, value)
        if real is not None and real != msgs[0][1]:
            stats["encoder_differs_from_canonical"] += 1
            msgs.append(("real", real))
        for source, data in msgs:
            # acceptance gate: complete delivery must give the intended value
            out = rx.decode(fcp, top, data)
            stats["control_deliveries"] += 1
            if out[0] in ("work", "memory"):
                # even a complete (or garbage) image must be decoded in bounded work
                res["evals"] += 1
                res["violations"].append({
                    "class": "unbounded_work", "signature": f"C16:unbounded_work:none:{source}_image", "run": index,
                    "message": f"fault-free delivery of a {len(data)}-byte {source} image of {top}: {out[0]} {out[1]} after {out[2]} lines",
                    "workload": {"decls": decls, "struct": top, "data": data.hex(), "fault": ["none"],
                                 "value": repr(value)[:400], "source": source}})
                continue
            if out[0] != "value" or not same_value(out[1], value):
                stats["control_mismatch"] += 1
                tr.add("control", source=source, ok=False)
                continue
            if source == "real":
                # spans of a non-canonical image are unknown; only cuts are meaningful
                spans, prefixes, flags = [], [], []
                if not all(ref_too_short(structs, top, data[:k]) for k in range(len(data))):
                    stats["real_image_prefix_not_short"] += 1
                    continue
            else:
                spans, prefixes, flags = ref.spans, ref.prefixes, ref.flags
            if len(data) > 400:
                stats["long_message"] += 1
            n = len(data)
            if n > 2600:
                stats["message_too_long_for_the_budget"] += 1      # decode cost is ~53 traced lines per byte per delivery
                continue
            if n <= 400:
                flist = [["cut", k] for k in range(n)]           # every byte boundary
            else:
                # a long message: every boundary near the ends and around each wire element boundary, a stride elsewhere
                ks = set(range(0, 16)) | set(range(n - 32, n)) | set(range(0, n, max(37, n // 40)))
                for a, b, kind in spans:
                    if kind in ("str_prefix", "dyn_prefix", "opt_flag", "float"):
                        ks |= set(range(max(0, a // 8 - 2), min(n, b // 8 + 3)))
                flist = [["cut", k] for k in sorted(k for k in ks if 0 <= k < n)]
                probes["long_message_sampled_cuts"] += 1
            for bit, ln, kind in prefixes:
                probes["str_at_unaligned_offset"] += 1 if (kind == "str" and bit % 8) else 0
                for lname, L in INFLATE:
                    L = ln + 1 if lname == "len+1" else ln + 255 if lname == "len+255" else L
                    if L <= ln:
                        continue
                    flist.append(["inflate", bit, L, None])
                    if n > 1 and rf.random() < 0.3:
                        flist.append(["inflate", bit, L, rf.randint((bit + 32 + 7) // 8, n)])
            for bit, fv in flags:
                if fv == 0:
                    flist.append(["flag_set", bit, None])
            # single flipped bits: every bit of up to two length prefixes, plus a few anywhere in the image;
            # only those the reference decoder classifies as "announces more than is there" are judged
            for bit, ln, kind in (prefixes if len(prefixes) <= 1 else rf.sample(prefixes, 1)):
                for b in range(32):
                    flist.append(["flip", bit + b, None])
            if spans:
                for _ in range(4):
                    flist.append(["flip", rf.randrange(8 * n), None])
            outcomes = []
            nv = 0
            for fault in flist:
                if nv >= 3 or len(res["violations"]) >= 6:
                    stats["faults_skipped_after_violations"] += 1
                    continue
                v, outcome = judge_delivery(rx, fcp, structs, top, data, fault, spans, sig, probes, distinct)
                if outcome == "complete":
                    stats["fault_left_message_complete"] += 1
                    continue
                res["evals"] += 1
                faults[fault[0]] += 1
                outcomes.append(outcome[0])
                if fault[0] == "cut" and spans:
                    land = landing(spans, 8 * fault[1])
                    if land == "str_payload":
                        probes["cut_in_str_payload"] += 1
                        if spans[-1][2] == "str_payload" and 8 * fault[1] >= [a for a, b, k in spans if k == "str_prefix"][-1]:
                            probes["cut_in_last_str_payload"] += 1
                    elif land == "float":
                        probes["cut_in_float"] += 1
                elif fault[0] == "inflate":
                    probes["inflate_str" if landing(spans, fault[1]) == "str_prefix" else "inflate_dyn"] += 1
                elif fault[0] == "flag_set":
                    probes["flag_set"] += 1
                elif fault[0] == "flip":
                    probes["flip_made_message_short"] += 1
                if v is None and outcome == "error" and rf.random() < 0.04:
                    # retry: the same buffer object is handed to decode() again
                    bad = apply_fault(data, fault)
                    first, second, mutated = rx.decode_twice_same_object(fcp, top, bad)
                    probes["retry_same_buffer_object"] += 1
                    if second[0] == "value":
                        v = ("fabricated_value", landing(spans, fault[1] if fault[0] != "cut" else 8 * fault[1]) if spans else "?",
                             f"second decode of the SAME bytearray object returned {str(second[1])[:100]!r} (first: {first[0]}; buffer mutated by decode: {mutated})")
                        fault = fault + ["retry"]
                if v is not None:
                    nv += 1
                    cls, land, msg = v
                    res["violations"].append({
                        "class": cls, "signature": f"C16:{cls}:{fault[0]}:{land}", "run": index,
                        "message": f"{fault} on a {n}-byte {source} message of {top}: {msg}",
                        "workload": {"decls": decls, "struct": top, "data": data.hex(), "fault": fault,
                                     "value": repr(value)[:400], "source": source}})
            tr.add("message", source=source, data=data.hex(), outcomes="".join(outcomes))
            if sample is None and index % 50 == 0:
                sample = {"schema": src, "value": repr(value)[:300], "bytes": data.hex(),
                          "faults": [f for f in flist[:3]] + [f for f in flist if f[0] != "cut"][:3],
                          "outcomes(e=error,v=value,w=work,m=memory)": "".join(outcomes)[:80]}
    res["digest"] = tr.digest()
    res["probes"] = probes
    res["faults"] = faults
    res["stats"] = stats
    res["distinct"] = distinct
    res["sample"] = sample
    return res


# ---------------------------------------------------------------------------


def check_workload(w):
    if w.get("logging") == "debug":
        from .kit import set_debug_logging
        set_debug_logging()
    rx = Receiver()
    decls = w["decls"]
    _, structs = S.index(decls)
    fcp, _ = parse_schema(decls)
    data = bytes.fromhex(w["data"])
    fault = w["fault"]
    bad = apply_fault(data, fault)
    if fault[0] == "none":
        outcome, payload, work = rx.decode(fcp, w["struct"], data)
        if outcome in ("work", "memory"):
            return [{"class": "unbounded_work", "signature": "C16:unbounded_work:none", "workload": w,
                     "message": f"fault-free decode of {len(data)} bytes -> {outcome} {payload} ({work} lines)"}]
        return []
    if not (fault[0] == "cut" or ref_too_short(structs, w["struct"], bad)):
        return []
    # precondition of the property: the complete message is a valid encoding for the real decoder
    ctl = rx.decode(fcp, w["struct"], data)
    if ctl[0] != "value":
        return []
    try:
        ref = RefDec(structs, data).dec(["struct", w["struct"]])
    except Truncated:
        return []
    if not same_value(ctl[1], ref) and w.get("source") != "real":
        return []
    outcome, payload, work = rx.decode(fcp, w["struct"], bad)
    if outcome == "error" and fault[-1] == "retry":
        first, second, mutated = rx.decode_twice_same_object(fcp, w["struct"], bad)
        outcome, payload = second
    if outcome == "error":
        return []
    cls = "fabricated_value" if outcome == "value" else "unbounded_work"
    return [{"class": cls, "signature": f"C16:{cls}:{fault[0]}", "workload": w,
             "message": f"{fault}: decode of {len(bad)}/{len(data)} bytes -> {outcome} {str(payload)[:100]!r} ({work} lines)"}]


def replay(workload):
    return check_workload(workload)


def minimise(v):
    """Shrink the schema (drop fields of the top struct that the fault does not need) by re-encoding."""
    w = v["workload"]
    cls = v["class"]
    best = w
    # try moving a cut later (closer to the end) and an inflate to the smallest length that still fails
    data = bytes.fromhex(w["data"])
    f = w["fault"]
    if f[0] == "cut":
        for k in range(len(data) - 1, f[1], -1):
            ww = dict(w, fault=["cut", k])
            if any(x["class"] == cls for x in pristine(check_workload, ww)):
                best = ww
                break
    out = dict(v, workload=best, minimised=True)
    vs = [x for x in pristine(check_workload, best) if x["class"] == cls]
    if vs:
        out["message"] = vs[0]["message"]
        return out
    return v
