#!/venv/bin/python
"""tools/import_seeded.py <property> <agent-out-dir> : confirm every candidate under <dir>/<k>/ in a scratch worktree and
copy the confirmed ones to /verif/seeded/<property>-a<k>/ (patch.diff, demo.py, meta.json)."""
import json, shutil, subprocess, sys
from pathlib import Path
VERIF = Path(__file__).resolve().parents[1]
prop, src = sys.argv[1], Path(sys.argv[2])
tag = sys.argv[3] if len(sys.argv) > 3 else "a"
benign = tag.startswith("n")      # property-preserving change: demo must exit 0 before and after
for d in sorted(p for p in src.iterdir() if p.is_dir() and (p / "patch.diff").exists()):
    r = json.loads(subprocess.run([str(VERIF / "tools/seeded.py"), "confirm", str(d)], capture_output=True, text=True).stdout)
    sid = f"{prop}-{tag}{d.name}"
    if benign:
        r["ok"] = ("why" not in r and not r["new_failures"] and r["tests_patched"].split(" in ")[0] == r["tests_clean"].split(" in ")[0]
                   and r["demo_clean_exit"] == 0 and r["demo_patched_exit"] == 0)
    print(sid, "CONFIRMED" if r["ok"] else "REJECTED", {k: r.get(k) for k in ("tests_patched", "demo_clean_exit", "demo_patched_exit", "why", "new_failures")})
    if not r["ok"]:
        continue
    dst = VERIF / "seeded" / sid
    dst.mkdir(parents=True, exist_ok=True)
    shutil.copy(d / "patch.diff", dst / "patch.diff")
    shutil.copy(d / "demo.py", dst / "demo.py")
    meta = {"property": prop, "benign": benign, "source": "independent sub-agent given only the property text and a scratch worktree",
            "description": (d / "meta.txt").read_text() if (d / "meta.txt").exists() else "",
            "confirmed": {"tests_clean": r["tests_clean"], "tests_patched": r["tests_patched"],
                          "demo_exit_clean": r["demo_clean_exit"], "demo_exit_patched": r["demo_patched_exit"],
                          "demo_output_patched": r["demo_patched_output"],
                          "how": "tools/seeded.py confirm: fresh git worktree of /repo HEAD, PYTHONPATH=<wt>/src pytest before/after git apply, demo.py <wt> before/after"}}
    (dst / "meta.json").write_text(json.dumps(meta, indent=1))
