#!/venv/bin/python
"""Regenerates /verif/MANIFEST.json (single source for the check table). Run after editing."""
import json
from pathlib import Path

ROOT = Path(__file__).resolve().parents[1]

NA = {
 "C01": "decode(encode(v)) == v is a pure function of (schema, value): no schedule, clock, fault, I/O effect or state across calls for a simulator to own (DESIGN.md section 5)",
 "C02": "byte-exact agreement with the canonical wire format is a pure function of (schema, value); nothing to schedule or fault",
 "C03": "'generated C++ compiles and encodes canonically' is a pure function of the schema and the value; no time, I/O fault or history in it",
 "C05": "'the DBC describes the packed layout' is a pure function of the schema; deterministic simulation has nothing to contribute beyond input generation",
 "C06": "generated C pack/unpack of one frame is a pure function of (schema, value); schedsim only uses the generated encoder as the reference for which value was sent",
 "C07": "parse(print(x)) == x is a pure function of the schema text",
 "C08": "reference resolution is a pure function of the file tree contents; parsesim's injected resolution errors touch its negative half only incidentally",
 "C09": "the verifier's verdict is a pure function of (tree, registered check set); gensim takes the verdict as a given",
 "C12": "reflection round-trip is a pure function of the schema",
 "C13": "static vs reflection-loaded C++ codec agreement is a pure function of (schema, value)",
 "C14": "rejection of oversize / variable-size CAN bindings is a pure function of the schema",
 "C15": "invariance under permuting field declarations is a pure (metamorphic) function of the schema",
 "C18": "the C++ CAN wrapper maps one message to one frame and back statelessly: a pure function of (schema, value, frame)",
}
PENDING_REASON = "check under construction in this session (engine designed in DESIGN.md section 4, not yet registered)"

CHECKS = {
 "C17": dict(engine="detsim", category="exploration", design_ref="4.5",
   text="every run is a fresh worker interpreter whose PYTHONHASHSEED, TZ, process-wide wall clock (datetime/time), user and host name, directory listing order and operation history (parse, broken parse through the default Logger, verify with plug-in checks, layout on a kept encoder, reflection encode, earlier generations, fresh or reused tree objects) are chosen by the seeded simulator; every generate of every generator is compared file-by-file (stamp line removed) with the pristine baseline of the same schema; sampling over seeds, histories and a per-batch schema pool",
   note="generators are called through Generator.generate; the stamp line removed is exactly the documented one; trusts sha-256 comparison of normalised contents",
   technique="deterministic simulation with ambient-nondeterminism injection (hash seed, clock, uid/host, listing order, process history) and a pristine-run oracle",
   kind="deterministic simulation: fresh interpreters with simulator-owned hash seed / clock / user / host / listing order / history, pristine baseline oracle"),
 "C10": dict(engine="gensim", category="exploration", design_ref="4.2",
   text="seeded command histories (gen via CLI or API with fresh or reused manager, touch, rm) against one scratch output directory with seeded pre-states; schemas carry zero or one injected check failure at a seeded position (root file or imported module), including seeded checks in every verifier category registered by a simulator-owned third-party plug-in (fcp_simgen); every gen is judged against an independent evaluation of every registered check: rejected => Err/diagnostic, plug-in never called, directory snapshot identical and no mutating file-system call under it (audit hook); accepted => exactly the returned files with exactly the returned contents; a share of runs injects ENOSPC/EIO/EACCES on the k-th mutating event; sampling, not proof",
   note="the reference verdict calls the registered check functions directly (the checks themselves are C09's); raising checks / plug-ins are counted, not judged; trusts the audit hook and content snapshots as observers; the wall clock / user / host read by fcp_cpp are simulated",
   technique="deterministic simulation of command histories on a private disk with injected check failures and write faults (audit-hook observer, independent verdict oracle)",
   kind="deterministic simulation: command histories against a scratch output directory, injected check failures and write faults, snapshot + audit-hook observers"),
 "C11": dict(engine="parsesim", path="simfcp/parsesim11.py", category="fault_enumeration", design_ref="4.3",
   text="for seeded small schema trees on a private disk, EVERY byte-offset truncation of EVERY file is parsed (exhaustive per tree), plus ~40 token-level garbles and targeted out-of-domain literals per file, missing and emptied modules, through get_fcp and get_fcp_from_string with fresh / run-long shared / default-argument Loggers; each parse must return (20 s watchdog), raise nothing, answer is_ok/is_err, and every Err must render with citations [file:n] that exist and echo line n; sampled over trees and garbles",
   note="trusts the citation parser (regex over the rendered diagnostic) and the watchdog as termination oracle; says nothing about which verdict is returned",
   technique="deterministic simulation of storage faults on schema files (torn writes enumerated at every byte, garbled / missing / empty files) with long-lived logger state",
   kind="deterministic simulation: schema file tree on a private disk with torn/garbled/missing files, real parser + diagnostic renderer"),
 "C20": dict(engine="parsesim", path="simfcp/parsesim20.py", category="exploration", design_ref="4.7",
   text="seeded declaration lists split into seeded trees of closed modules (depth <= 3, dotted paths) on a private disk; the split tree must parse to the same structs/enums/bindings/services/devices as the single-file rendering, and for every module M each of missing / illegal token / torn tail / unresolved type must come back as an Err naming M (and the type); sampling, not proof",
   note="modules are closed and imported once (tree); categories compared as name-keyed maps; 'names the module' = base file name occurs in the rendered diagnostic or message chain",
   technique="deterministic simulation of a multi-file schema tree with per-module storage faults (missing / corrupted module at any depth), single-file reference",
   kind="deterministic simulation: module tree on a private disk, per-module fault injection, single-file schema as reference"),
 "C04": dict(engine="layoutsim", category="exploration", design_ref="4.1",
   text="seeded search over fixed-size schemas x histories of generate() calls on long-lived encoders (re-layouts, raising calls, encoder replacement, unrolling on/off); every call is judged against a reference layout computed from the schema description (tiling, field-id order, wire widths, unique names), against a brand-new encoder (history independence), against snapshots of all earlier results (no retroactive change) and for option isolation; sampling, not proof",
   note="trusts the 40-line reference layout (written from the property text) and the schema renderer; shapes the encoder documents as unsupported are counted, not judged",
   technique="deterministic simulation of call histories on stateful encoders (seeded operation sequences, reference model + fresh-instance oracle)",
   kind="deterministic simulation: seeded histories of generate() calls on long-lived PackedEncoders, reference layout model"),
 "C19": dict(engine="schedsim", category="exploration", design_ref="4.6",
   text="seeded search over schemas x call histories of the real generated scheduler (compiled C) under simulated clocks, checked call by call against a reference automaton in unwrapped time plus history checks (no double send within P, no send without period, bounded liveness, cross-device isolation); sampling, not proof",
   note="trusts the C compilers on x86-64 (gcc and clang, -O0/-O1/-O2 as swarm knobs), the generated can_encode_msg_* as packing reference, and the 40-line reference automaton (periods taken from the schema, not from the generated header); fields limited to 8/16/32/64-bit integers; clock deltas < 2^32 - Pmax",
   technique="deterministic simulation with clock fault injection (seeded call histories, reference automaton oracle)",
   kind="deterministic simulation: generated C scheduler compiled from the current tree, per-device simulated 32-bit clocks (stall/jump/wrap/skew), recorded bus, reference automaton"),
 "C16": dict(engine="wiresim", category="fault_enumeration", design_ref="4.4",
   text="for seeded (schema, value) pairs every byte-boundary truncation of every valid message is delivered to the real decoder, plus every length prefix inflated to five sizes up to 2^32-1, every absent optional's flag set and single flipped bits (all 32 bits of a prefix, a few anywhere) whenever the reference decoder says the result announces more than is there; the decoder must raise, under a deterministic work clock (line events in serde.py) and an allocation limit; exhaustive in the truncation dimension per message, sampled over schemas and values",
   note="trusts the 60-line reference codec (self-checked against tests/standardized vectors at start-up) to say which faulted strings are too short; messages are used only if the real decoder round-trips them when complete; enums excluded (serde has none)",
   technique="deterministic simulation of a faulty byte channel (truncation / corrupted length prefixes enumerated per message) with a step-count work clock",
   kind="deterministic simulation: sender -> fault-injecting byte channel -> fcp.serde.decode, reference codec as oracle, sys.settrace work clock"),
}
ORDER = ["C04", "C10", "C11", "C16", "C17", "C19", "C20"]


def main():
    checks, engines, pending = [], [], []
    for pid in ORDER:
        c = CHECKS.get(pid)
        if c is None:
            pending.append(pid)
            continue
        checks.append({
            "property_id": pid,
            "quick_cmd": f"bin/check {pid} --tier quick",
            "thorough_cmd": f"bin/check {pid} --tier thorough",
            "evidence_file": f"evidence/{pid}.json",
            "replay_cmd_template": f"bin/check {pid} --replay {{path}}",
            "engine": c["engine"],
            "level_claimed": {"category": c["category"], "text": c["text"], "design_ref": c["design_ref"]},
            "level_note": c["note"],
            "technique": c["technique"],
        })
        e = [x for x in engines if x["name"] == c["engine"]]
        if e:
            e[0]["serves_properties"].append(pid)
        else:
            engines.append({"name": c["engine"], "path": c.get("path", f"simfcp/{c['engine']}.py") if c["engine"] != "parsesim" else "simfcp/parsekit.py (+ parsesim11.py, parsesim20.py)",
                            "serves_properties": [pid], "kind_free_text": c["kind"]})
    na = dict(NA)
    for p in pending:
        na[p] = PENDING_REASON
    m = {
        "version": 1,
        "setup_cmd": "bin/setup",
        "hooks": {
            "guard": "FCP_CORE_VERIF",
            "enable": "no hooks: every seam used already exists (function arguments, callbacks, replaceable module attributes, a directory owned by the run, sys.addaudithook, environment variables); checks import /repo's working tree directly",
            "baseline_off_cmd": "cd /repo && /venv/bin/python -m pytest -ra -q -p no:cacheprovider --timeout=900 --continue-on-collection-errors",
            "source_commits": [],
            "add_only": True,
        },
        "engines": engines,
        "checks": checks,
        "not_applicable": [{"property_id": k, "reason": v} for k, v in sorted(na.items())],
        "notes": "bin/check <id> --tier quick|thorough [--replay file]; VERIF_SEED selects the seed; VERIF_REPO aims a check at another tree (self-tests only). Exit 0 held / 1 violation (VIOLATION line) / 3 harness error (HARNESS-ERROR line). Known findings and fixed: records are in known_findings.json.",
    }
    (ROOT / "MANIFEST.json").write_text(json.dumps(m, indent=1))
    print("MANIFEST.json:", len(checks), "checks,", len(na), "not_applicable")


if __name__ == "__main__":
    main()
