#!/bin/sh
# Re-bases every seeded patch that no longer applies to /repo HEAD (after a later fix: commit) with a 3-way merge,
# and rewrites patch.diff as a plain diff against the current HEAD. Conflicts are reported, not resolved.
for d in /verif/seeded/*/; do
  id=$(basename "$d")
  [ -f "$d/patch.diff" ] || continue
  if git -C /repo apply --check "$d/patch.diff" 2>/dev/null; then continue; fi
  wt=/tmp/rebase-$id
  git -C /repo worktree add -q --detach "$wt" HEAD
  if git -C "$wt" apply --3way "$d/patch.diff" >/dev/null 2>&1 && ! git -C "$wt" diff --name-only --diff-filter=U | grep -q .; then
     git -C "$wt" diff HEAD > "$d/patch.diff.new" && mv "$d/patch.diff.new" "$d/patch.diff" && echo "$id rebased"
  else
     echo "$id CONFLICT"
  fi
  git -C /repo worktree remove --force "$wt"
done
