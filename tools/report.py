#!/venv/bin/python
"""Regenerates the tables of DESIGN.md section 14 (between the BEGIN/END markers) from
selftest/mutants_last_run.log and seeded/results.json + seeded/*/meta.json."""
import ast, json, re
from pathlib import Path
ROOT = Path(__file__).resolve().parents[1]
out = []
log = ROOT / "selftest" / "mutants_last_run.log"
rows = []
if log.exists():
    for l in log.read_text().splitlines():
        if l.startswith("('C"):
            try:
                rows.append(ast.literal_eval(l))
            except Exception:
                pass
out.append("### 14.1 Hand-seeded mutants (`selftest/mutants.py`, last full run)\n")
out.append("| property | mutant | result | replay (mutant / pristine exit) | first violation class |")
out.append("|---|---|---|---|---|")
for r in rows:
    cls = re.search(r"class=(\S+)", r[5] or "")
    rp = re.search(r"mutant=(\d),pristine=(\d)", r[4] or "")
    out.append(f"| {r[0]} | `{r[1]}` | {r[2]} | {rp.group(1) + ' / ' + rp.group(2) if rp else '-'} | {cls.group(1) if cls else ''} |")
out.append(f"\n{sum(1 for r in rows if r[2] == 'CAUGHT')} of {len(rows)} caught.\n")
res = json.loads((ROOT / "seeded" / "results.json").read_text()) if (ROOT / "seeded" / "results.json").exists() else {}
out.append("### 14.2 Changes written by independent sub-agents (`seeded/<id>/`)\n")
out.append("Each sub-agent saw only the property text and a scratch worktree. `a*` = first round, `b*` = second round "
           "(asked for cooperating edits / carried-over state / unusual environments), `c*`/`d*`/`e*` = adversarial rounds (asked for triggers a "
           "generator-plus-reference-model checker is least likely to hit; `e*` also got the list of triggers already used; `f*` = a further such round after all earlier ones were caught - "
           "18 of its 21 changes were missed at first, see section 9 for what each one added to the workloads), `n*`/`n2*`/`n3*` = property-preserving changes "
           "(the check must stay quiet).\n")
out.append("| id | what the change does (from the author's meta) | quick check | caught as | replay on changed tree |")
out.append("|---|---|---|---|---|")
for d in sorted(p for p in (ROOT / "seeded").iterdir() if (p / "meta.json").exists()):
    meta = json.loads((d / "meta.json").read_text())
    desc = " ".join(meta.get("description", "").split())[:230].replace("|", "/")
    r = res.get(f"{d.name}:quick")
    if r is None:
        out.append(f"| {d.name} | {desc} | not run | | |")
        continue
    benign = meta.get("benign", False)
    verdict = ("quiet (exit 0)" if r["exit"] == 0 else f"ALARM exit {r['exit']}") if benign else ("caught" if r["caught"] else f"MISSED (exit {r['exit']})")
    cls = re.search(r"class=(\S+)", r.get("first_violation") or "")
    out.append(f"| {d.name} | {desc} | {verdict} | {cls.group(1) if cls else ''} | {r.get('replay_exit_on_changed_tree', '')} |")
out.append("")
out.append("### 14.3 Seeded changes the checks do not catch, and why")
out.append("")
out.append("* `C11-d3` needs the caller to change the working directory between `get_fcp()` and `Logger.error()` (relative root "
           "path). The harness renders every error immediately, in the directory it parsed in; a cwd change between the two "
           "calls is not part of the simulated environment. Left out on purpose: it is a property of the caller's process, not "
           "of the input text or of the storage faults C11 is about.")
out.append("* `C20-d2` needs a non-UTF-8 text encoding of the interpreter (`LC_ALL=C PYTHONUTF8=0 PYTHONCOERCECLOCALE=0`) "
           "and a non-ASCII character in a module. The workloads do contain non-ASCII units, but the interpreter's encoding "
           "is not a simulated dimension (on the pinned tree the same configuration already makes the ROOT file unreadable).")
out.append("* `C10-e2` needs a registered check that rejects with an `Err` whose payload is falsy (`Err('')`). Checks are typed "
           "`Result[Nil, FcpError]`; with a string payload the shipped CLI itself crashes in `result.err().results_in(...)`, so the "
           "stub plug-in stays within the contract and never produces such a check.")
out.append("* `C19-e3` needs the scheduler to be called from two threads (thread-local static state). The property is about call "
           "sequences; the generated code, the driver and the property text contain no thread.")
out.append("* `C16-f1` makes the ENCODER write a string's UTF-8 bytes behind a character-count prefix. Only non-ASCII strings are "
           "affected, which the pinned codec cannot represent at all (`ord(x)` into a u8, `decode('ascii')`); read by the canonical "
           "format the changed encoder's image simply carries trailing bytes, so its prefixes are not truncated messages and the "
           "decoder is right not to raise. wiresim gates every message on 'the complete image decodes to the intended value' and "
           "skips this one; the fault is the encoder's (C01/C02, not applicable here), not truncation detection.")
out.append("* `C10-c3` changes what a plug-in CHECK rejects (`impl <p> for <EnumName>`), not the gate: with it no registered check "
           "rejects any more, so C10 holds as stated; that is C09's verdict specification (not applicable here). Kept as a "
           "property-preserving change: gensim stays quiet.")
text = "\n".join(out)
p = ROOT / "DESIGN.md"
s = p.read_text()
b, e = "<!-- BEGIN GENERATED -->", "<!-- END GENERATED -->"
if b in s:
    s = s[:s.index(b) + len(b)] + "\n" + text + "\n" + s[s.index(e):]
else:
    s += f"\n## 14. Which checks catch which changes\n\n{b}\n{text}\n{e}\n"
p.write_text(s)
print("section 14 regenerated:", len(rows), "mutants,", len(res), "seeded results")
