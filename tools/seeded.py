#!/venv/bin/python
"""Seeded-change bookkeeping.

  tools/seeded.py confirm <dir>        confirm a candidate (<dir>/patch.diff, demo.py) in a scratch worktree:
                                       patch applies, test suite unchanged, demo exits 1 with / 0 without the change
  tools/seeded.py run <seeded-id>...   apply /verif/seeded/<id>/patch.diff to /repo, run the property's check (quick tier
                                       unless --tier thorough), undo with `git checkout -- .`, record in results.json
  tools/seeded.py all                  run every seeded change
The repository is always restored, also when a check is interrupted.
"""

from __future__ import annotations

import json
import os
import shutil
import subprocess
import sys
import tempfile
import time
from pathlib import Path

VERIF = Path(__file__).resolve().parents[1]
REPO = Path("/repo")
SEEDED = VERIF / "seeded"
PLUG = ["fcp_dbc", "fcp_can_c", "fcp_cpp", "fcp_nop"]
TEST = ["/venv/bin/python", "-m", "pytest", "-q", "-p", "no:cacheprovider", "--timeout=900", "--continue-on-collection-errors"]


def sh(cmd, **kw):
    return subprocess.run(cmd, capture_output=True, text=True, **kw)


def tests(root: Path):
    env = dict(os.environ, PYTHONPATH=str(root / "src"), PYTHONDONTWRITEBYTECODE="1")
    p = sh(TEST, cwd=str(root), env=env)
    tail = [l for l in p.stdout.splitlines() if " passed" in l or " failed" in l][-1:]
    failed = sorted(l.split(" ")[1] for l in p.stdout.splitlines() if l.startswith("FAILED "))
    return (tail[0] if tail else p.stdout[-200:]), failed


def demo(root: Path, demo_py: Path):
    p = sh(["/venv/bin/python", str(demo_py), str(root)], cwd=str(demo_py.parent), env=dict(os.environ, PYTHONDONTWRITEBYTECODE="1"),
           timeout=600)
    return p.returncode, (p.stdout + p.stderr)[-400:]


def confirm(d: Path):
    wt = Path(tempfile.mkdtemp(prefix="seeded-confirm-"))
    shutil.rmtree(wt)
    sh(["git", "-C", str(REPO), "worktree", "add", "--detach", str(wt), "HEAD"])
    try:
        base_tail, base_failed = tests(wt)
        rc0, out0 = demo(wt, d / "demo.py")
        ap = sh(["git", "-C", str(wt), "apply", str(d / "patch.diff")])
        if ap.returncode != 0:
            return {"ok": False, "why": "patch does not apply: " + ap.stderr[-300:]}
        tail, failed = tests(wt)
        rc1, out1 = demo(wt, d / "demo.py")
        ok = (failed == base_failed and tail.split(" in ")[0] == base_tail.split(" in ")[0] and rc0 == 0 and rc1 == 1)
        return {"ok": ok, "tests_clean": base_tail, "tests_patched": tail, "new_failures": sorted(set(failed) - set(base_failed)),
                "demo_clean_exit": rc0, "demo_patched_exit": rc1, "demo_patched_output": out1, "demo_clean_output": out0 if rc0 else ""}
    finally:
        sh(["git", "-C", str(REPO), "worktree", "remove", "--force", str(wt)])
        shutil.rmtree(wt, ignore_errors=True)


def run_scratch(sid: str, tier: str):
    """Same as run(), but against a scratch worktree through VERIF_REPO (safe while something else uses /repo)."""
    d = SEEDED / sid
    meta = json.loads((d / "meta.json").read_text())
    prop = meta["property"]
    wt = Path(tempfile.mkdtemp(prefix="seeded-wt-"))
    shutil.rmtree(wt)
    sh(["git", "-C", str(REPO), "worktree", "add", "--detach", str(wt), "HEAD"])
    t0 = time.time()
    try:
        ap = sh(["git", "-C", str(wt), "apply", str(d / "patch.diff")])
        if ap.returncode != 0:
            raise SystemExit(f"{sid}: patch does not apply: {ap.stderr}")
        env = dict(os.environ, VERIF_REPO=str(wt), VERIF_EVIDENCE_DIR=str(wt / "_ev"), VERIF_REPLAY_DIR=str(wt / "_rp"))
        p = sh([str(VERIF / "bin/check"), prop, "--tier", tier], env=env, cwd=str(VERIF))
        vio = [l for l in p.stdout.splitlines() if l.startswith("VIOLATION")]
        cls = [l.strip() for l in p.stdout.splitlines() if l.strip().startswith("violation class=")]
        replay_exit = None
        if vio:
            # the first replay file must reproduce in a fresh process on the changed tree
            rp = vio[0].split("replay=", 1)[1].strip()
            replay_exit = sh([str(VERIF / "bin/check"), prop, "--replay", rp], env=env, cwd=str(VERIF)).returncode
        return {"id": sid, "property": prop, "tier": tier, "mode": "scratch worktree via VERIF_REPO", "exit": p.returncode,
                "caught": p.returncode == 1 and bool(vio), "replay_exit_on_changed_tree": replay_exit,
                "wall_s": round(time.time() - t0, 1),
                "first_violation": cls[0][:300] if cls else None, "tail": "" if vio else p.stdout[-400:]}
    finally:
        sh(["git", "-C", str(REPO), "worktree", "remove", "--force", str(wt)])
        shutil.rmtree(wt, ignore_errors=True)


def run(sid: str, tier: str):
    d = SEEDED / sid
    meta = json.loads((d / "meta.json").read_text())
    prop = meta["property"]
    st = sh(["git", "-C", str(REPO), "status", "--porcelain"])
    if st.stdout.strip():
        raise SystemExit("/repo is not clean: " + st.stdout)
    ap = sh(["git", "-C", str(REPO), "apply", str(d / "patch.diff")])
    if ap.returncode != 0:
        raise SystemExit(f"{sid}: patch does not apply: {ap.stderr}")
    scratch = Path(tempfile.mkdtemp(prefix="seeded-run-"))
    t0 = time.time()
    try:
        env = dict(os.environ, VERIF_EVIDENCE_DIR=str(scratch / "evidence"), VERIF_REPLAY_DIR=str(scratch / "replays"))
        p = sh([str(VERIF / "bin/check"), prop, "--tier", tier], env=env, cwd=str(VERIF))
        vio = [l for l in p.stdout.splitlines() if l.startswith("VIOLATION")]
        cls = [l.strip() for l in p.stdout.splitlines() if l.strip().startswith("violation class=")]
        res = {"id": sid, "property": prop, "tier": tier, "exit": p.returncode, "caught": p.returncode == 1 and bool(vio),
               "mode": "applied to /repo, then git checkout -- .",
               "wall_s": round(time.time() - t0, 1), "first_violation": cls[0][:300] if cls else None,
               "tail": "" if vio else p.stdout[-300:]}
    finally:
        sh(["git", "-C", str(REPO), "checkout", "--", "."])
        shutil.rmtree(scratch, ignore_errors=True)
    left = sh(["git", "-C", str(REPO), "status", "--porcelain"]).stdout.strip()
    if left:
        raise SystemExit("/repo not restored: " + left)
    return res


def main():
    a = sys.argv[1:]
    if not a:
        print(__doc__)
        return
    if a[0] == "confirm":
        print(json.dumps(confirm(Path(a[1]).resolve()), indent=1))
        return
    tier = "quick"
    scratch = "--scratch" in a
    if scratch:
        a.remove("--scratch")
    if "--tier" in a:
        i = a.index("--tier")
        tier = a[i + 1]
        del a[i:i + 2]
    ids = sorted(p.name for p in SEEDED.iterdir() if (p / "meta.json").exists()) if a[0] == "all" else a[1:]
    out = SEEDED / "results.json"
    results = json.loads(out.read_text()) if out.exists() else {}
    for sid in ids:
        r = run_scratch(sid, tier) if scratch else run(sid, tier)
        results[f"{sid}:{tier}"] = r
        print(json.dumps(r))
        out.write_text(json.dumps(results, indent=1, sort_keys=True))


if __name__ == "__main__":
    main()
